"""Semantics-preserving normal form applied to every module before any rule looks at it.

The rules of sa/props were written against today's tree; a maintainer's behaviour-preserving clean-up (renamed local,
flipped if/else, `a == X or a == Y` written as `a in (X, Y)`) must not change a verdict.  Rather than teaching every rule
every spelling, the loader rewrites each function into one canonical spelling:

  N1  boolean/if normal form (reference-free)
        if not C: A else: B          ->  if C: B else: A            (also conditional expressions)
        not (a in b) / not (a is b)  ->  a not in b / a is not b    (and the converse; `not (a == b)` -> `a != b`)
        not not C (in a test)        ->  C
        x == A or x == B [or ...]    ->  x in (A, B, ...)           (same side-effect-free left operand)
        x != A and x != B            ->  x not in (A, B)
  N2  alpha-alignment of local variable names (uses sa/reference.json, generated from the tree the rules were confirmed on):
      a local of today's function that is absent from the reference function, and whose *binding signature* (the shape of
      the expressions it is bound from, with all local names wild-carded) equals that of a reference local now absent, is
      renamed to the reference name -- only when the renaming is capture free.  Alpha-conversion preserves behaviour, so a
      verdict on the renamed function is a verdict on the function as written.  A local whose binding changed is *not*
      aligned: the rule then sees the new name and judges it (fails closed).

Nothing here looks at line numbers or text; new nodes copy the location of the node they replace so reports still point at
the source line.  `Module.source` keeps the raw text.
"""
import ast
import json
import os

_REF = None
REF_PATH = os.path.join(os.path.dirname(os.path.abspath(__file__)), "reference.json")


def reference():
    global _REF
    if _REF is None:
        try:
            with open(REF_PATH) as f:
                _REF = json.load(f)
        except (OSError, ValueError):
            _REF = {}
    return _REF


# ------------------------------------------------------------------------------------------------ N1
def _simple(e):
    """side-effect-free operand: name / attribute chain / constant / subscript of those with constant index"""
    if isinstance(e, (ast.Name, ast.Constant)):
        return True
    if isinstance(e, ast.Attribute):
        return _simple(e.value)
    if isinstance(e, ast.Subscript):
        return _simple(e.value) and _simple(e.slice)
    return False


_NEG = {ast.In: ast.NotIn, ast.NotIn: ast.In, ast.Is: ast.IsNot, ast.IsNot: ast.Is, ast.Eq: ast.NotEq, ast.NotEq: ast.Eq}


def _negate(t):
    """logical negation of a test expression in normal form"""
    if isinstance(t, ast.UnaryOp) and isinstance(t.op, ast.Not):
        return t.operand
    if isinstance(t, ast.Compare) and len(t.ops) == 1 and type(t.ops[0]) in _NEG:
        return ast.copy_location(ast.Compare(left=t.left, ops=[_NEG[type(t.ops[0])]()], comparators=t.comparators), t)
    return ast.copy_location(ast.UnaryOp(op=ast.Not(), operand=t), t)


class _BoolNF(ast.NodeTransformer):
    def visit_UnaryOp(self, n):
        self.generic_visit(n)
        if isinstance(n.op, ast.Not):
            o = n.operand
            if isinstance(o, ast.Compare) and len(o.ops) == 1 and type(o.ops[0]) in _NEG:
                return _negate(o)
            if isinstance(o, ast.UnaryOp) and isinstance(o.op, ast.Not) and isinstance(o.operand, (ast.Compare, ast.BoolOp, ast.UnaryOp)):
                return o.operand      # not not <boolean-valued expr>
        return n

    def visit_BoolOp(self, n):
        self.generic_visit(n)
        want = ast.Eq if isinstance(n.op, ast.Or) else ast.NotEq
        vals = n.values
        if len(vals) >= 2 and all(isinstance(v, ast.Compare) and len(v.ops) == 1 and isinstance(v.ops[0], want) for v in vals):
            lefts = {ast.dump(v.left) for v in vals}
            if len(lefts) == 1 and _simple(vals[0].left) and all(_simple(v.comparators[0]) for v in vals):
                tup = ast.copy_location(ast.Tuple(elts=[v.comparators[0] for v in vals], ctx=ast.Load()), n)
                op = ast.In() if want is ast.Eq else ast.NotIn()
                return ast.copy_location(ast.Compare(left=vals[0].left, ops=[op], comparators=[tup]), n)
        return n

    @staticmethod
    def _negative(t):
        """the positive form of a negative test, or None"""
        if isinstance(t, ast.UnaryOp) and isinstance(t.op, ast.Not):
            return t.operand
        if isinstance(t, ast.Compare) and len(t.ops) == 1 and isinstance(t.ops[0], (ast.NotIn, ast.IsNot, ast.NotEq)):
            return _negate(t)
        return None

    def visit_If(self, n):
        self.generic_visit(n)
        t = n.test
        pos = self._negative(t)
        if n.orelse and pos is not None:
            n.test, n.body, n.orelse = pos, n.orelse, n.body
        elif isinstance(t, ast.UnaryOp) and isinstance(t.op, ast.Not) and isinstance(t.operand, ast.UnaryOp) and isinstance(t.operand.op, ast.Not):
            n.test = t.operand.operand
        return n

    def visit_While(self, n):
        self.generic_visit(n)
        t = n.test
        if isinstance(t, ast.UnaryOp) and isinstance(t.op, ast.Not) and isinstance(t.operand, ast.UnaryOp) and isinstance(t.operand.op, ast.Not):
            n.test = t.operand.operand
        return n

    def visit_IfExp(self, n):
        self.generic_visit(n)
        pos = self._negative(n.test)
        if pos is not None:
            n.test, n.body, n.orelse = pos, n.orelse, n.body
        return n


# ------------------------------------------------------------------------------------------------ N5-N7
import os as _os
_OPT = set(_os.environ.get("SA_NORMAL", "N5,N6,N7,N8,N9,N10,N11").split(","))


def _ends_in_jump(stmts):
    if not stmts:
        return False
    s = stmts[-1]
    if isinstance(s, (ast.Return, ast.Raise, ast.Continue, ast.Break)):
        return True
    if isinstance(s, ast.If):
        return bool(s.orelse) and _ends_in_jump(s.body) and _ends_in_jump(s.orelse)
    return False


def _same_target(a, b):
    return ast.dump(a) == ast.dump(b)


class _ShapeNF(ast.NodeTransformer):
    """N5  else-after-jump:   if c: ..jump  else: B      ->  if c: ..jump ; B
                              if c: A  else: ..jump      ->  if not c: ..jump ; A
       N6  conditional value: if c: x = A  else: x = B   ->  x = A if c else B         (same plain target)
       N7  nested guards:     if a: (only) if b: X       ->  if a and b: X             (no else on either)"""

    def _quantifier(self, s):
        """N8  quantifier guards back to loops (exact: a generator expression is evaluated lazily, left to right):
                 if not all(E for x in xs): <jump>   ->  for x in xs: if not E: <jump>
                 if any(E for x in xs): <jump>       ->  for x in xs: if E: <jump>
                 return any(E for x in xs)           ->  for x in xs: if E: return True ; return False
                 return all(E for x in xs)           ->  for x in xs: if not E: return False ; return True"""
        def gen(call, name):
            if isinstance(call, ast.Call) and isinstance(call.func, ast.Name) and call.func.id == name and len(call.args) == 1 \
                    and not call.keywords and isinstance(call.args[0], ast.GeneratorExp) and len(call.args[0].generators) == 1 \
                    and not call.args[0].generators[0].is_async and isinstance(call.args[0].generators[0].target, ast.Name):
                return call.args[0]
            return None

        def loop(g, test, body, at):
            inner = ast.If(test=test, body=body, orelse=[])
            for cond in reversed(g.generators[0].ifs):
                inner = ast.If(test=cond, body=[inner], orelse=[])
            f = ast.For(target=ast.Name(id=g.generators[0].target.id, ctx=ast.Store()), iter=g.generators[0].iter, body=[inner], orelse=[])
            return ast.fix_missing_locations(ast.copy_location(f, at))
        if isinstance(s, ast.If) and not s.orelse and _ends_in_jump(s.body):
            t = s.test
            if isinstance(t, ast.UnaryOp) and isinstance(t.op, ast.Not) and gen(t.operand, "all"):
                g = gen(t.operand, "all")
                return [loop(g, _BoolNF().visit(_negate(g.elt)), s.body, s)]
            if gen(t, "any"):
                g = gen(t, "any")
                return [loop(g, g.elt, s.body, s)]
        if isinstance(s, ast.Assign) and len(s.targets) == 1 and isinstance(s.targets[0], ast.Name):
            # found = any(E for x in xs)   ->   found = False ; for x in xs: if E: found = True ; break
            for name, hit in (("any", True), ("all", False)):
                g = gen(s.value, name)
                if g is not None:
                    tgt = s.targets[0].id
                    init = ast.copy_location(ast.Assign(targets=[ast.Name(id=tgt, ctx=ast.Store())], value=ast.Constant(value=not hit)), s)
                    setv = ast.copy_location(ast.Assign(targets=[ast.Name(id=tgt, ctx=ast.Store())], value=ast.Constant(value=hit)), s)
                    test = g.elt if name == "any" else _BoolNF().visit(_negate(g.elt))
                    return [ast.fix_missing_locations(init), loop(g, test, [ast.fix_missing_locations(setv), ast.copy_location(ast.Break(), s)], s)]
        if isinstance(s, ast.Return) and s.value is not None:
            for name, first, last in (("any", True, False), ("all", False, True)):
                g = gen(s.value, name)
                if g is not None:
                    test = g.elt if name == "any" else _BoolNF().visit(_negate(g.elt))
                    r1 = ast.copy_location(ast.Return(value=ast.Constant(value=first)), s)
                    r2 = ast.copy_location(ast.Return(value=ast.Constant(value=last)), s)
                    return [loop(g, test, [r1], s), ast.fix_missing_locations(r2)]
        return None

    @staticmethod
    def _flag_accumulation(node):
        """N11  flag = flag or C   ->   if C: flag = True        (also `flag |= C`)
        for a local that only ever holds booleans (every store is a True/False literal or this form) and a C that is a
        comparison / boolean combination of comparisons: under those typing facts the two statements are the same function."""
        def boolish(e):
            if isinstance(e, ast.Compare):
                return True
            if isinstance(e, ast.UnaryOp) and isinstance(e.op, ast.Not):
                return True
            if isinstance(e, ast.BoolOp):
                return all(boolish(v) for v in e.values)
            return isinstance(e, ast.Constant) and isinstance(e.value, bool)
        stores = {}
        for n in ast.walk(node):
            if isinstance(n, (ast.FunctionDef, ast.Lambda)) and n is not node:
                continue
            if isinstance(n, ast.Assign) and len(n.targets) == 1 and isinstance(n.targets[0], ast.Name):
                stores.setdefault(n.targets[0].id, []).append(n)
            elif isinstance(n, ast.AugAssign) and isinstance(n.target, ast.Name):
                stores.setdefault(n.target.id, []).append(n)
            elif isinstance(n, (ast.For, ast.comprehension, ast.With, ast.ExceptHandler, ast.arg)):
                for t in ast.walk(n.target) if hasattr(n, "target") and n.target is not None else []:
                    if isinstance(t, ast.Name):
                        stores.setdefault(t.id, []).append(None)
        params = {a.arg for a in node.args.args + node.args.kwonlyargs}

        def acc(st, x):
            if isinstance(st, ast.Assign) and isinstance(st.value, ast.BoolOp) and isinstance(st.value.op, ast.Or) and \
                    len(st.value.values) == 2 and isinstance(st.value.values[0], ast.Name) and st.value.values[0].id == x \
                    and boolish(st.value.values[1]):
                return st.value.values[1]
            if isinstance(st, ast.AugAssign) and isinstance(st.op, ast.BitOr) and boolish(st.value):
                return st.value
            return None
        flags = set()
        for x, sts in stores.items():
            if x in params or any(s_ is None for s_ in sts):
                continue
            if all((isinstance(s_, ast.Assign) and isinstance(s_.value, ast.Constant) and isinstance(s_.value.value, bool)) or
                   acc(s_, x) is not None for s_ in sts) and any(acc(s_, x) is not None for s_ in sts):
                flags.add(x)
        if not flags:
            return

        class R(ast.NodeTransformer):
            def visit_FunctionDef(self, n):
                return n if n is not node else self.generic_visit(n)

            def _rw(self, st, x):
                c = acc(st, x)
                if c is None:
                    return st
                new = ast.If(test=c, body=[ast.Assign(targets=[ast.Name(id=x, ctx=ast.Store())], value=ast.Constant(value=True))], orelse=[])
                return ast.fix_missing_locations(ast.copy_location(new, st))

            def visit_Assign(self, st):
                if len(st.targets) == 1 and isinstance(st.targets[0], ast.Name) and st.targets[0].id in flags:
                    return self._rw(st, st.targets[0].id)
                return st

            def visit_AugAssign(self, st):
                if isinstance(st.target, ast.Name) and st.target.id in flags:
                    return self._rw(st, st.target.id)
                return st
        R().visit(node)

    def visit_FunctionDef(self, node):
        if "N11" in _OPT:
            self._flag_accumulation(node)
        # `if any(E for x in xs): S` as the LAST statement of a function: S is followed by the implicit return, so it is the
        # same as `for x in xs: if E: S ; return`
        if "N8" in _OPT and node.body and isinstance(node.body[-1], ast.If) and not node.body[-1].orelse \
                and not _ends_in_jump(node.body[-1].body):
            last = node.body[-1]
            t = last.test
            inner = t.operand if isinstance(t, ast.UnaryOp) and isinstance(t.op, ast.Not) else t
            if isinstance(inner, ast.Call) and isinstance(inner.func, ast.Name) and inner.func.id in ("any", "all") \
                    and len(inner.args) == 1 and isinstance(inner.args[0], ast.GeneratorExp) \
                    and ((inner.func.id == "any") != (inner is not t)):
                last.body = list(last.body) + [ast.copy_location(ast.Return(value=None), last)]
        # tail `if A or any(E for x in xs): S`  ->  `if A: S ; return` then `if any(E for x in xs): S` (handled above next time)
        if "N8" in _OPT and node.body and isinstance(node.body[-1], ast.If) and not node.body[-1].orelse \
                and not _ends_in_jump(node.body[-1].body) and isinstance(node.body[-1].test, ast.BoolOp) \
                and isinstance(node.body[-1].test.op, ast.Or):
            last = node.body[-1]
            q = last.test.values[-1]
            if isinstance(q, ast.Call) and isinstance(q.func, ast.Name) and q.func.id == "any" and len(q.args) == 1 \
                    and isinstance(q.args[0], ast.GeneratorExp) and not any(isinstance(x, (ast.Yield, ast.YieldFrom)) for x in ast.walk(node)):
                from .inline import clone
                rest = last.test.values[:-1]
                first = ast.If(test=rest[0] if len(rest) == 1 else ast.BoolOp(op=ast.Or(), values=rest),
                               body=[clone(b) for b in last.body] + [ast.Return(value=None)], orelse=[])
                second = ast.If(test=q, body=list(last.body) + [ast.Return(value=None)], orelse=[])
                node.body = node.body[:-1] + [ast.fix_missing_locations(ast.copy_location(first, last)),
                                              ast.fix_missing_locations(ast.copy_location(second, last))]
        self._infn = getattr(self, "_infn", 0) + 1
        try:
            return self.generic_visit(node)
        finally:
            self._infn -= 1

    def _unroll(self, s):
        """N9  loop over a literal table:  for a, b in ((A1, B1), (A2, B2)): BODY   ->   BODY[a:=A1, b:=B1] ; BODY[a:=A2, b:=B2]
        when every element is a tuple of plain names / attribute chains / constants of the target's arity (or the target is a
        single name), the body neither assigns the targets nor breaks/continues out of this loop, and there is no else clause.
        Exact up to *when* the attribute chains are read (once per element at table construction vs at each use); restricted to
        chains that the body does not store to."""
        if not isinstance(s, ast.For) or s.orelse:
            return None
        it = s.iter
        if isinstance(it, ast.Name) and it.id in getattr(self, "_tables", {}):
            it = self._tables[it.id]        # a module-level literal table bound exactly once (and never a local of this function)
        if not isinstance(it, (ast.Tuple, ast.List)) or not (1 <= len(it.elts) <= 12):
            return None
        s = ast.copy_location(ast.For(target=s.target, iter=it, body=s.body, orelse=[]), s)
        tg = s.target
        names = [tg.id] if isinstance(tg, ast.Name) else \
            [e.id for e in tg.elts] if isinstance(tg, ast.Tuple) and all(isinstance(e, ast.Name) for e in tg.elts) else None
        if not names:
            return None

        def simple(e):
            while isinstance(e, ast.Attribute):
                e = e.value
            return isinstance(e, (ast.Name, ast.Constant))
        rows = []
        for el in s.iter.elts:
            if isinstance(tg, ast.Name):
                if not simple(el):
                    return None
                rows.append([el])
            else:
                if not isinstance(el, (ast.Tuple, ast.List)) or len(el.elts) != len(names) or not all(simple(x) for x in el.elts):
                    return None
                rows.append(list(el.elts))
        stored = set()
        for b in s.body:
            for x in ast.walk(b):
                if isinstance(x, ast.Name) and isinstance(x.ctx, (ast.Store, ast.Del)) and x.id in names:
                    return None
                if isinstance(x, (ast.FunctionDef, ast.Lambda, ast.ClassDef)):
                    return None
                if isinstance(x, ast.Attribute) and isinstance(x.ctx, (ast.Store, ast.Del)):
                    stored.add(ast.unparse(x))
        # break / continue that belong to this loop (not to a loop nested in the body)

        def jumps(stmts):
            for st in stmts:
                if isinstance(st, (ast.Break, ast.Continue)):
                    return True
                if isinstance(st, (ast.For, ast.While)):
                    if jumps(st.orelse):
                        return True
                    continue
                for fld in ("body", "orelse", "finalbody"):
                    if isinstance(getattr(st, fld, None), list) and jumps(getattr(st, fld)):
                        return True
                if isinstance(st, ast.Try) and any(jumps(h.body) for h in st.handlers):
                    return True
            return False
        if jumps(s.body):
            return None
        if any(ast.unparse(x) in stored for row in rows for x in row if isinstance(x, ast.Attribute)):
            return None
        from .inline import clone

        class Sub(ast.NodeTransformer):
            def __init__(self, m):
                self.m = m

            def visit_Name(self, n):
                if isinstance(n.ctx, ast.Load) and n.id in self.m:
                    return ast.copy_location(clone(self.m[n.id]), n)
                return n
        out = []
        for row in rows:
            m = dict(zip(names, row))
            for b in s.body:
                out.append(ast.fix_missing_locations(Sub(m).visit(clone(b))))
        return out

    @staticmethod
    def _default_then_override(a, b):
        """N10  x = A ; if T: x = B   ->   x = B if T else A     (A free of side effects and T not reading x: exact)"""
        if not (isinstance(a, ast.Assign) and len(a.targets) == 1 and isinstance(a.targets[0], ast.Name)):
            return None
        if not (isinstance(b, ast.If) and not b.orelse and len(b.body) == 1 and isinstance(b.body[0], ast.Assign)
                and len(b.body[0].targets) == 1 and isinstance(b.body[0].targets[0], ast.Name)
                and b.body[0].targets[0].id == a.targets[0].id):
            return None
        x = a.targets[0].id
        for n in ast.walk(a.value):
            if not isinstance(n, (ast.Constant, ast.Name, ast.List, ast.Tuple, ast.Dict, ast.Set, ast.Load, ast.UnaryOp, ast.USub,
                                  ast.Attribute)):
                return None
        if any(isinstance(n, ast.Attribute) for n in ast.walk(a.value)) and any(isinstance(n, ast.Call) for n in ast.walk(b.test)):
            return None         # a call in the test could change what the attribute holds
        if any(isinstance(n, ast.Name) and n.id == x for n in ast.walk(b.test)) or \
                any(isinstance(n, ast.Name) and n.id == x for n in ast.walk(a.value)):
            return None
        if any(isinstance(n, (ast.NamedExpr, ast.Yield, ast.YieldFrom, ast.Await)) for n in ast.walk(b.test)):
            return None
        new = ast.Assign(targets=[ast.Name(id=x, ctx=ast.Store())],
                         value=ast.IfExp(test=b.test, body=b.body[0].value, orelse=a.value))
        return ast.fix_missing_locations(ast.copy_location(new, a))

    def _block(self, stmts, chain=False):
        if "N10" in _OPT and len(stmts) >= 2:
            merged, i = [], 0
            while i < len(stmts):
                m = self._default_then_override(stmts[i], stmts[i + 1]) if i + 1 < len(stmts) else None
                if m is not None:
                    merged.append(m)
                    i += 2
                else:
                    merged.append(stmts[i])
                    i += 1
            stmts = merged
        out = []
        for s in stmts:
            if "N9" in _OPT and getattr(self, "_infn", 0) > 0:       # function bodies only: module-level loops (package imports) stay
                u = self._unroll(s)
                if u is not None and not self._used_after(stmts, s):
                    out.extend(self._block(u, chain))
                    continue
            if "N8" in _OPT:
                q = self._quantifier(s)
                if q is not None:
                    out.extend(q)
                    continue
            if isinstance(s, ast.If):
                s = self._if(s, chain)
                if isinstance(s, list):
                    out.extend(s)
                    continue
            out.append(s)
        return out

    def _used_after(self, stmts, loop):
        """are the loop's target names read in the statements that follow it in this block? (their last values would be needed)"""
        tg = loop.target
        names = {tg.id} if isinstance(tg, ast.Name) else {e.id for e in tg.elts if isinstance(e, ast.Name)}
        i = stmts.index(loop)
        for st in stmts[i + 1:]:
            for x in ast.walk(st):
                if isinstance(x, ast.Name) and x.id in names and isinstance(x.ctx, ast.Load):
                    return True
        return False

    def _if(self, n, chain=False):
        if "N7" in _OPT:
            while not n.orelse and len(n.body) == 1 and isinstance(n.body[0], ast.If) and not n.body[0].orelse:
                inner = n.body[0]
                vals = (n.test.values if isinstance(n.test, ast.BoolOp) and isinstance(n.test.op, ast.And) else [n.test]) + \
                       (inner.test.values if isinstance(inner.test, ast.BoolOp) and isinstance(inner.test.op, ast.And) else [inner.test])
                n = ast.copy_location(ast.If(test=ast.copy_location(ast.BoolOp(op=ast.And(), values=list(vals)), n.test),
                                             body=inner.body, orelse=[]), n)
        if "N6" in _OPT and not chain and n.orelse and len(n.body) == 1 and len(n.orelse) == 1 \
                and isinstance(n.body[0], ast.Assign) and isinstance(n.orelse[0], ast.Assign) \
                and len(n.body[0].targets) == 1 and len(n.orelse[0].targets) == 1 \
                and isinstance(n.body[0].targets[0], (ast.Name, ast.Attribute)) \
                and _same_target(n.body[0].targets[0], n.orelse[0].targets[0]):
            val = ast.copy_location(ast.IfExp(test=n.test, body=n.body[0].value, orelse=n.orelse[0].value), n)
            val = _BoolNF().visit_IfExp(val) if isinstance(val, ast.IfExp) else val
            return ast.copy_location(ast.Assign(targets=n.body[0].targets, value=val), n)
        if "N5" in _OPT and n.orelse and not chain and not (len(n.orelse) == 1 and isinstance(n.orelse[0], ast.If)):
            bj, oj = _ends_in_jump(n.body), _ends_in_jump(n.orelse)
            if bj:
                rest = n.orelse
                n = ast.copy_location(ast.If(test=n.test, body=n.body, orelse=[]), n)
                return [n] + self._block(rest)
            if oj:
                rest = n.body
                n = ast.copy_location(ast.If(test=_BoolNF().visit(_negate(n.test)), body=n.orelse, orelse=[]), n)
                return [n] + self._block(rest)
        return n

    def generic_visit(self, node):
        super().generic_visit(node)
        for fld in ("body", "orelse", "finalbody"):
            v = getattr(node, fld, None)
            if isinstance(v, list) and v and isinstance(v[0], ast.stmt):
                chain = fld == "orelse" and isinstance(node, ast.If) and len(v) == 1 and isinstance(v[0], ast.If)
                setattr(node, fld, self._block(v, chain))
        return node


# ------------------------------------------------------------------------------------------------ N2
_BAD_CALLS = ("locals", "vars", "exec", "eval", "globals")


def _own_nodes(fn):
    """nodes of fn's body that belong to fn's own scope or to comprehension scopes nested in it (no nested defs)"""
    stack = list(fn.body)
    while stack:
        n = stack.pop()
        yield n
        if isinstance(n, (ast.FunctionDef, ast.AsyncFunctionDef, ast.Lambda, ast.ClassDef)):
            continue
        stack.extend(ast.iter_child_nodes(n))


def scope_info(fn):
    """(params, locals in first-binding order, all names used) or None when the function is not safely renamable"""
    params = [a.arg for a in fn.args.posonlyargs + fn.args.args + fn.args.kwonlyargs]
    if fn.args.vararg:
        params.append(fn.args.vararg.arg)
    if fn.args.kwarg:
        params.append(fn.args.kwarg.arg)
    decl, used, order = set(), set(), []
    nodes = sorted((n for n in _own_nodes(fn) if hasattr(n, "lineno")), key=lambda n: (n.lineno, n.col_offset))
    for n in _own_nodes(fn):
        if isinstance(n, (ast.FunctionDef, ast.AsyncFunctionDef, ast.Lambda, ast.ClassDef)):
            return None
        if isinstance(n, ast.Call) and isinstance(n.func, ast.Name) and n.func.id in _BAD_CALLS:
            return None
        if isinstance(n, (ast.Global, ast.Nonlocal)):
            decl.update(n.names)
        if isinstance(n, (ast.Import, ast.ImportFrom)):
            for a in n.names:
                decl.add((a.asname or a.name).split(".")[0])
    for n in nodes:
        if isinstance(n, ast.Name):
            used.add(n.id)
            if isinstance(n.ctx, (ast.Store, ast.Del)) and n.id not in order:
                order.append(n.id)
        elif isinstance(n, ast.ExceptHandler) and n.name:
            used.add(n.name)
            if n.name not in order:
                order.append(n.name)
    locs = [x for x in order if x not in params and x not in decl]
    return params, locs, used | decl


class _Wild(ast.NodeTransformer):
    def __init__(self, names):
        self.names = names

    def visit_Name(self, n):
        if n.id in self.names:
            return ast.copy_location(ast.Name(id="_", ctx=n.ctx), n)
        return n


def _canon(e, wild):
    hit = [n for n in ast.walk(e) if isinstance(n, ast.Name) and n.id in wild]
    saved = [n.id for n in hit]
    try:
        for n in hit:
            n.id = "_"
        return ast.unparse(e)
    except Exception:
        return "<?>"
    finally:
        for n, v in zip(hit, saved):
            n.id = v


def _targets(t, path=""):
    if isinstance(t, ast.Name):
        yield t.id, path
    elif isinstance(t, (ast.Tuple, ast.List)):
        for i, e in enumerate(t.elts):
            yield from _targets(e, path + "." + str(i))
    elif isinstance(t, ast.Starred):
        yield from _targets(t.value, path + "*")


def signatures(fn, info=None):
    """{local: tuple of binding descriptors}, local names wild-carded so the signature is alpha-invariant"""
    info = info or scope_info(fn)
    if info is None:
        return None
    params, locs, _ = info
    wild = set(locs)
    sig = {x: [] for x in locs}
    nodes = sorted((n for n in _own_nodes(fn) if hasattr(n, "lineno")), key=lambda n: (n.lineno, n.col_offset))
    for n in nodes:
        if isinstance(n, ast.Assign):
            for t in n.targets:
                for name, path in _targets(t):
                    if name in sig:
                        sig[name].append("=%s %s" % (path, _canon(n.value, wild)))
        elif isinstance(n, ast.AnnAssign) and n.value is not None:
            for name, path in _targets(n.target):
                if name in sig:
                    sig[name].append("=%s %s" % (path, _canon(n.value, wild)))
        elif isinstance(n, ast.AugAssign):
            for name, path in _targets(n.target):
                if name in sig:
                    sig[name].append("%s= %s" % (type(n.op).__name__, _canon(n.value, wild)))
        elif isinstance(n, (ast.For, ast.AsyncFor)):
            for name, path in _targets(n.target):
                if name in sig:
                    sig[name].append("for%s %s" % (path, _canon(n.iter, wild)))
        elif isinstance(n, (ast.ListComp, ast.SetComp, ast.GeneratorExp, ast.DictComp)):
            for g in n.generators:
                for name, path in _targets(g.target):
                    if name in sig:
                        sig[name].append("comp%s %s" % (path, _canon(g.iter, wild)))
        elif isinstance(n, (ast.With, ast.AsyncWith)):
            for it in n.items:
                if it.optional_vars is not None:
                    for name, path in _targets(it.optional_vars):
                        if name in sig:
                            sig[name].append("with%s %s" % (path, _canon(it.context_expr, wild)))
        elif isinstance(n, ast.ExceptHandler) and n.name in sig:
            sig[n.name].append("except %s" % (_canon(n.type, wild) if n.type is not None else ""))
        elif isinstance(n, ast.NamedExpr):
            for name, path in _targets(n.target):
                if name in sig:
                    sig[name].append(":= %s" % _canon(n.value, wild))
    return {k: tuple(v) for k, v in sig.items()}


class _Rename(ast.NodeTransformer):
    def __init__(self, m):
        self.m = m

    def visit_Name(self, n):
        if n.id in self.m:
            n.id = self.m[n.id]
        return n

    def visit_ExceptHandler(self, n):
        if n.name in self.m:
            n.name = self.m[n.name]
        self.generic_visit(n)
        return n


def align_function(fn, ref_locals):
    """rename locals of fn to the reference names where the binding signature identifies them; returns {old: new}"""
    info = scope_info(fn)
    if info is None or not ref_locals:
        return {}
    params, locs, used = info
    ref_names = [r[0] for r in ref_locals]
    missing = [(r[0], tuple(r[1])) for r in ref_locals if r[0] not in locs]
    fresh = [x for x in locs if x not in ref_names]
    if not missing or not fresh:
        return {}
    sig = signatures(fn, info)
    mapping = {}
    for rname, rsig in missing:
        if rname in used or rname in params:
            continue        # capture: the reference name is in use for something else
        for c in fresh:
            if c not in mapping and sig.get(c) == rsig and rsig:
                mapping[c] = rname
                break
    if mapping:
        r = _Rename(mapping)
        fn.body = [r.visit(st) for st in fn.body]
    return mapping


def functions(tree):
    """(qualname, FunctionDef) for module-level functions and methods (one nesting level of classes, recursively)"""
    def rec(body, prefix):
        for n in body:
            if isinstance(n, (ast.FunctionDef, ast.AsyncFunctionDef)):
                yield prefix + n.name, n
            elif isinstance(n, ast.ClassDef):
                yield from rec(n.body, prefix + n.name + ".")
            elif isinstance(n, (ast.If, ast.Try)):
                for fld in ("body", "orelse", "finalbody"):
                    yield from rec(getattr(n, fld, []), prefix)
                for h in getattr(n, "handlers", []):
                    yield from rec(h.body, prefix)
    yield from rec(tree.body, "")


def _module_tables(tree):
    """module-level names bound exactly once, to a literal tuple/list, and rebound/declared global nowhere in the module"""
    if not isinstance(tree, ast.Module):
        return {}
    cnt, val = {}, {}
    for n in ast.walk(tree):
        if isinstance(n, ast.Name) and isinstance(n.ctx, (ast.Store, ast.Del)):
            cnt[n.id] = cnt.get(n.id, 0) + 1
        elif isinstance(n, (ast.Global, ast.Nonlocal)):
            for k in n.names:
                cnt[k] = cnt.get(k, 0) + 2
        elif isinstance(n, ast.arg):
            cnt[n.arg] = cnt.get(n.arg, 0) + 2
    for st in tree.body:
        if isinstance(st, ast.Assign) and len(st.targets) == 1 and isinstance(st.targets[0], ast.Name) and \
                isinstance(st.value, (ast.Tuple, ast.List)):
            val[st.targets[0].id] = st.value
    return {k: v for k, v in val.items() if cnt.get(k) == 1}


def _nf(tree):
    tree = _BoolNF().visit(tree)
    if _OPT - {""}:
        sh = _ShapeNF()
        sh._tables = _module_tables(tree)
        tree = sh.visit(tree)
    return tree


def normalize(tree, relpath, digest=None):
    tree = _nf(tree)
    R = reference()
    ref = R.get("functions", {}).get(relpath)
    renamed, notes = {}, {}
    if ref and digest is not None and R.get("digests", {}).get(relpath) == digest:
        ref = None      # the module is byte-identical to the reference tree: nothing to inline, substitute or align
    if ref is not None:
        from . import inline
        known = R.get("_names")
        if known is None:
            known = set()
            for m in R.get("functions", {}).values():
                for q in m:
                    known.add(q.rsplit(".", 1)[-1])
            R["_names"] = known
        # "new" = absent from this module's reference; a method name known only in unrelated modules is no obstacle
        local_known = {q.rsplit(".", 1)[-1] for q in ref}
        tree._relpath = relpath
        st = inline.inline_new_helpers(tree, ref, local_known)
        np_ = inline.inline_new_properties(tree, ref, known)
        if np_:
            st["inlined"] = st.get("inlined", 0) + np_
        if st.get("inlined"):
            tree = _nf(tree)
            notes["inlined"] = st
        inline._PURE_FUNCS = inline.pure_functions(tree)
        for qual, fn in functions(tree):
            r = ref.get(qual)
            if r and r.get("locals") is not None:
                m = align_function(fn, r["locals"])
                if m:
                    renamed[qual] = m
                try:
                    sub = inline.substitute_new_temps(fn, r["locals"])
                except RecursionError:
                    sub = []
                if sub:
                    notes.setdefault("temps", {})[qual] = sub
                    _nf(fn)
                    m2 = align_function(fn, r["locals"])
                    if m2:
                        renamed.setdefault(qual, {}).update(m2)
    ast.fix_missing_locations(tree)
    tree._renamed = renamed
    tree._normal_notes = notes
    return tree


def prepare_program(files):
    """files: {relpath: source text} of the whole program about to be loaded.  Finds the functions that are new to the
    program as a whole (N3 across modules and classes) before the modules are normalised one by one."""
    import hashlib
    from . import inline
    R = reference()
    inline.NEW_UNIQUE.clear()
    inline._PROGRAM["files"] = files
    inline._PROGRAM["stable"] = None
    if not R.get("functions"):
        return
    changed = {}
    for rel, text in files.items():
        if text is None or text == "\0DELETED":
            continue
        if R.get("digests", {}).get(rel) == hashlib.sha256(text.encode("utf8", "replace")).hexdigest():
            continue
        try:
            changed[rel] = _nf(ast.parse(text))
        except (SyntaxError, RecursionError):
            continue
    if not changed:
        return
    known = R.get("_names")
    if known is None:
        known = set()
        for m in R.get("functions", {}).values():
            for q in m:
                known.add(q.rsplit(".", 1)[-1])
        R["_names"] = known
    inline.prepare_program(changed, R.get("functions", {}), known)


def finish_program(trees):
    """trees: {relpath: normalised tree}.  A program-wide helper that was expanded somewhere and is called nowhere any more
    is removed from its module (as N3 does within one module)."""
    from . import inline
    todo = inline.foreign_folded()
    # names folded away inside their own module may still be imported by others (which expanded their calls as well)
    gone = set()
    for t in trees.values():
        gone |= set((getattr(t, "_normal_notes", {}) or {}).get("inlined", {}).get("folded", []))
    gone &= set(inline.NEW_UNIQUE)
    if gone:
        for t in trees.values():
            loads = {n.id for n in ast.walk(t) if isinstance(n, ast.Name) and isinstance(n.ctx, ast.Load)} | \
                {n.attr for n in ast.walk(t) if isinstance(n, ast.Attribute)}
            for holder in ast.walk(t):
                body = getattr(holder, "body", None)
                if not isinstance(body, list):
                    continue
                for st in list(body):
                    if isinstance(st, ast.ImportFrom):
                        keep = [a for a in st.names if not (a.name in gone and (a.asname or a.name) not in loads)]
                        if len(keep) != len(st.names):
                            if keep:
                                st.names = keep
                            else:
                                body[body.index(st)] = ast.copy_location(ast.Pass(), st)
    if not todo:
        return
    remaining = {}
    for t in trees.values():
        for n in ast.walk(t):
            if isinstance(n, ast.Call):
                f = n.func
                nm = f.id if isinstance(f, ast.Name) else f.attr if isinstance(f, ast.Attribute) else None
                if nm:
                    remaining[nm] = remaining.get(nm, 0) + 1
    for rel, cls, name in todo:
        if remaining.get(name) or rel not in trees:
            continue
        t = trees[rel]
        for holder in [t] + [n for n in t.body if isinstance(n, ast.ClassDef)]:
            if (cls is None) == (holder is t) and (cls is None or holder.name == cls):
                holder.body = [n for n in holder.body if not (isinstance(n, ast.FunctionDef) and n.name == name)] or [ast.Pass()]


def build_reference(root):
    """reference table from the tree under root (run by tools/gen_reference.py)"""
    out = {}
    digests = {}
    for dp, dns, fns in os.walk(os.path.join(root, "ioflo")):
        dns[:] = [d for d in dns if d != "__pycache__"]
        for f in sorted(fns):
            if not f.endswith(".py"):
                continue
            full = os.path.join(dp, f)
            rel = os.path.relpath(full, root)
            try:
                tree = _nf(ast.parse(open(full, encoding="utf8", errors="replace").read()))
            except SyntaxError:
                continue
            ent = {}
            for qual, fn in functions(tree):
                info = scope_info(fn)
                if info is None:
                    ent[qual] = {"params": [], "locals": []}
                    continue
                sig = signatures(fn, info)
                ent[qual] = {"params": info[0], "locals": [[x, list(sig[x])] for x in info[1]]}
            out[rel] = ent
            import hashlib
            digests[rel] = hashlib.sha256(open(full, encoding="utf8", errors="replace").read().encode("utf8", "replace")).hexdigest()
    return {"functions": out, "digests": digests}
