"""N3 / N4 of the normal form (see sa/normalize.py): undo the two most common behaviour-preserving clean-ups so that the
rules see the function in the shape they were confirmed on.

N3  inline *new* helpers.  A function or method that does not exist in the reference table (sa/reference.json) and whose
    name is not a method/function name known anywhere in the reference is a helper somebody extracted.  Its calls from the
    same class (self.h(..), Cls.h(..)) or module (h(..)) are expanded in place when the expansion is exact:
      - the helper is a plain function (no generator, no nested defs, no *args/**kw, not recursive);
      - the call is a whole statement (`h(..)`), the value of an assignment or return, or an if-test (optionally negated);
        a helper that is a single `return <expr>` is also expanded inside larger expressions;
      - every `return` of the helper can be replaced by the caller's continuation: a return in tail position by
        "assign / fall through", any other return only when the continuation ends in a jump (return/raise/continue/break);
      - parameters bound to plain names or constants are substituted, anything else is bound to a temporary first;
      - helper locals are renamed apart unless the caller's variable of the same name is dead at the call.
    A helper that cannot be expanded exactly is left alone (the rule then reports or fails closed as before).
N4  forward-substitute *new* temporaries: a local that is absent from the reference function, bound once to a side-effect
    free expression, is replaced by that expression at its uses when no path from the binding to a use can change what the
    expression reads (no store to a name it reads; no call or attribute/subscript store at all if it reads attributes).
    `v = <call>` used once as the test/value of the very next statement is substituted too.
Both are exact program equivalences, so a verdict on the rewritten function is a verdict on the function as written.
"""
import ast
import copy


def clone(node):
    """structural copy of an AST (fields and positions only: no private attributes, singletons shared)"""
    if isinstance(node, list):
        return [clone(x) for x in node]
    if not isinstance(node, ast.AST):
        return node
    if isinstance(node, (ast.expr_context, ast.operator, ast.cmpop, ast.boolop, ast.unaryop)):
        return node
    new = type(node)()
    for f in node._fields:
        if hasattr(node, f):
            setattr(new, f, clone(getattr(node, f)))
    for a in ("lineno", "col_offset", "end_lineno", "end_col_offset"):
        if hasattr(node, a):
            setattr(new, a, getattr(node, a))
    return new

def clone_keep(node, keep):
    """clone, but the sub-node `keep` is carried over by identity (so that it can be found and replaced in the copy)"""
    if node is keep:
        return node
    if isinstance(node, list):
        return [clone_keep(x, keep) for x in node]
    if not isinstance(node, ast.AST):
        return node
    if isinstance(node, (ast.expr_context, ast.operator, ast.cmpop, ast.boolop, ast.unaryop)):
        return node
    new = type(node)()
    for f in node._fields:
        if hasattr(node, f):
            setattr(new, f, clone_keep(getattr(node, f), keep))
    for a in ("lineno", "col_offset", "end_lineno", "end_col_offset"):
        if hasattr(node, a):
            setattr(new, a, getattr(node, a))
    return new


PURE_CALLS = {"len", "abs", "isinstance", "min", "max", "int", "float", "bool", "str"}
ITER_CALLS = {"any", "all", "sum", "sorted", "list", "tuple", "set", "enumerate", "zip", "reversed", "range", "iter", "next"}   # consume iterables, mutate nothing of ours
JUMPS = (ast.Return, ast.Raise, ast.Continue, ast.Break)


class Fail(Exception):
    pass


def _own(fn_or_stmts):
    """nodes of a function body / statement list without nested defs"""
    stack = list(fn_or_stmts.body) if isinstance(fn_or_stmts, (ast.FunctionDef, ast.AsyncFunctionDef)) else list(fn_or_stmts)
    while stack:
        n = stack.pop()
        yield n
        if isinstance(n, (ast.FunctionDef, ast.AsyncFunctionDef, ast.Lambda, ast.ClassDef)):
            continue
        stack.extend(ast.iter_child_nodes(n))


def _is_simple_arg(e):
    return isinstance(e, (ast.Name, ast.Constant))


def _ends_in_jump(stmts):
    if not stmts:
        return False
    s = stmts[-1]
    if isinstance(s, JUMPS):
        return True
    if isinstance(s, ast.If):
        return bool(s.orelse) and _ends_in_jump(s.body) and _ends_in_jump(s.orelse)
    if isinstance(s, ast.Try) and not s.finalbody:
        return all(_ends_in_jump(h.body) for h in s.handlers) and _ends_in_jump(s.orelse if s.orelse else s.body)
    return False


def _strip_doc(body):
    if body and isinstance(body[0], ast.Expr) and isinstance(body[0].value, ast.Constant) and isinstance(body[0].value.value, str):
        return body[1:]
    return body


class Helper:
    def __init__(self, fn, owner, static):
        self.fn, self.owner, self.static = fn, owner, static
        self.body = _strip_doc(fn.body)
        a = fn.args
        self.params = [x.arg for x in a.posonlyargs + a.args]
        self.kwonly = [x.arg for x in a.kwonlyargs]
        nd = len(a.defaults)
        self.defaults = dict(zip(self.params[len(self.params) - nd:], a.defaults)) if nd else {}
        for k, d in zip(self.kwonly, a.kw_defaults):
            if d is not None:
                self.defaults[k] = d
        self.vararg = a.vararg.arg if a.vararg else None
        self.kwarg = a.kwarg.arg if a.kwarg else None
        self.is_method = owner is not None and not static
        self.classm = any(isinstance(d, ast.Name) and d.id == "classmethod" for d in fn.decorator_list)
        self.relpath = None

    @staticmethod
    def eligible(fn):
        if isinstance(fn, ast.AsyncFunctionDef):
            return False
        for star in (fn.args.vararg, fn.args.kwarg):
            # *pa / **kwa are expanded only for pass-through calls h(*pa, **kwa) (see _bind) and only if the helper treats
            # them as read-only
            if star is not None:
                for n in _own(fn):
                    if isinstance(n, ast.Name) and n.id == star.arg and not isinstance(n.ctx, ast.Load):
                        return False
                    if isinstance(n, ast.Call) and isinstance(n.func, ast.Attribute) and isinstance(n.func.value, ast.Name) and \
                            n.func.value.id == star.arg and n.func.attr in ("pop", "update", "setdefault", "clear", "popitem", "append",
                                                                           "extend", "insert", "remove", "sort", "reverse"):
                        return False
                    if isinstance(n, (ast.Subscript, ast.Attribute)) and not isinstance(n.ctx, ast.Load) and \
                            isinstance(n.value, ast.Name) and n.value.id == star.arg:
                        return False
        for d in fn.decorator_list:
            if not (isinstance(d, ast.Name) and d.id in ("staticmethod", "classmethod")):
                return False
        if fn.name.startswith("__") and fn.name.endswith("__"):
            return False
        for n in _own(fn):
            if isinstance(n, (ast.Yield, ast.YieldFrom, ast.Await, ast.FunctionDef, ast.AsyncFunctionDef, ast.Lambda, ast.ClassDef,
                              ast.Global, ast.Nonlocal, ast.Try, ast.With)):
                # try/with around a return changes what the return means; keep the analysis exact by not expanding
                if isinstance(n, (ast.Try, ast.With)) and not any(isinstance(x, ast.Return) for x in ast.walk(n)):
                    continue
                if isinstance(n, ast.Try) and not n.finalbody and not n.orelse:
                    continue        # returns under try/except: expanded only where the continuation cannot raise (see _expand)
                return False
            if isinstance(n, ast.Call):
                f = n.func
                if (isinstance(f, ast.Name) and f.id == fn.name) or (isinstance(f, ast.Attribute) and f.attr == fn.name):
                    return False        # recursive
                if isinstance(f, ast.Name) and f.id in ("locals", "vars", "super", "eval", "exec"):
                    return False
        for d in list(fn.args.defaults) + [d for d in fn.args.kw_defaults if d is not None]:
            if not isinstance(d, (ast.Constant, ast.List, ast.Dict, ast.Tuple, ast.Name, ast.Attribute)):
                return False
        return True


class _Subst(ast.NodeTransformer):
    def __init__(self, exprs, renames):
        self.exprs, self.renames = exprs, renames

    def visit_Name(self, n):
        if n.id in self.exprs and isinstance(n.ctx, ast.Load):
            return ast.copy_location(clone(self.exprs[n.id]), n)
        if n.id in self.renames:
            n.id = self.renames[n.id]
        return n

    def visit_ExceptHandler(self, n):
        if n.name in self.renames:
            n.name = self.renames[n.name]
        self.generic_visit(n)
        return n


def _names_used(fn):
    used = set()
    for n in _own(fn):
        if isinstance(n, ast.Name):
            used.add(n.id)
        elif isinstance(n, ast.ExceptHandler) and n.name:
            used.add(n.name)
    a = fn.args
    for x in a.posonlyargs + a.args + a.kwonlyargs:
        used.add(x.arg)
    if a.vararg:
        used.add(a.vararg.arg)
    if a.kwarg:
        used.add(a.kwarg.arg)
    return used


def _stored(stmts):
    out = set()
    for n in _own(stmts):
        if isinstance(n, ast.Name) and isinstance(n.ctx, (ast.Store, ast.Del)):
            out.add(n.id)
        elif isinstance(n, ast.ExceptHandler) and n.name:
            out.add(n.name)
    return out


def _bind(helper, call, caller, at_stmt):
    """-> (prelude statements, {param: expr} substitutions, {local: new name}) or raise Fail"""
    args = list(call.args)
    keywords = list(call.keywords)
    subst = {}
    star_renames = {}
    if helper.vararg:
        if not (args and isinstance(args[-1], ast.Starred) and isinstance(args[-1].value, ast.Name)) or \
                len(args) - 1 != len(helper.params) - (1 if helper.is_method else 0):
            raise Fail("vararg helper not called as h(.., *name)")
        star_renames[helper.vararg] = args[-1].value.id
        args = args[:-1]
    if helper.kwarg:
        kk = [k for k in keywords if k.arg is None]
        if len(kk) != 1 or not isinstance(kk[0].value, ast.Name):
            raise Fail("kwarg helper not called as h(.., **name)")
        star_renames[helper.kwarg] = kk[0].value.id
        keywords = [k for k in keywords if k.arg is not None]
    if any(isinstance(a, ast.Starred) for a in args) or any(k.arg is None for k in keywords):
        raise Fail("star args")
    params = list(helper.params)
    if helper.is_method:
        if not params:
            raise Fail("no self")
        recv = call.func.value if isinstance(call.func, ast.Attribute) else None
        if isinstance(recv, ast.Name):
            if helper.classm and recv.id == "self":
                recv = ast.copy_location(ast.Attribute(value=recv, attr="__class__", ctx=ast.Load()), recv)
            subst[params[0]] = recv
            self_prelude = None
        elif _attr_chain(recv):
            self_prelude = (params[0], recv)        # `self.framer.helper(..)`: the receiver is read once, first
        else:
            raise Fail("receiver")
        self_param = params[0]
        params = params[1:]
    else:
        self_prelude = None
    if len(args) > len(params):
        raise Fail("too many args")
    given = dict(zip(params, args))
    for k in keywords:
        if k.arg in given or k.arg not in params + helper.kwonly:
            raise Fail("keyword")
        given[k.arg] = k.value
    for p in params + helper.kwonly:
        if p not in given:
            if p not in helper.defaults:
                raise Fail("missing arg")
            if not isinstance(helper.defaults[p], ast.Constant):
                raise Fail("mutable / computed default would be needed")
            given[p] = helper.defaults[p]
    stored = _stored(helper.body)
    used = _names_used(caller)
    prelude, renames = [], dict(star_renames)
    if self_prelude is not None:
        name = self_param + "_h"
        while name in used:
            name += "h"
        used.add(name)
        renames[self_param] = name
        prelude.append(ast.copy_location(ast.Assign(targets=[ast.Name(id=name, ctx=ast.Store())], value=clone(self_prelude[1])), at_stmt))
    for p in params + helper.kwonly:
        e = given[p]
        if _is_simple_arg(e) and p not in stored and not (isinstance(e, ast.Name) and e.id in stored):
            subst[p] = e
        else:
            name = p
            while name in used and not (isinstance(e, ast.Name) and e.id == name):
                name += "_h"
            used.add(name)
            if name != p:
                renames[p] = name
            if not (isinstance(e, ast.Name) and e.id == name):
                prelude.append(ast.copy_location(ast.Assign(targets=[ast.Name(id=name, ctx=ast.Store())], value=clone(e)), at_stmt))
    sub_names = {p for p in subst}
    own_targets = set()
    if isinstance(at_stmt, ast.Assign):      # `v, w = helper(..)`: the caller's v, w are overwritten by this very statement
        for t in at_stmt.targets:
            own_targets |= {x.id for x in ast.walk(t) if isinstance(x, ast.Name) and isinstance(x.ctx, ast.Store)}
    for v in sorted(stored - set(helper.params) - set(helper.kwonly)):
        if v in used and v not in own_targets and _live_after(caller, at_stmt, v):
            name = v + "_h"
            while name in used:
                name += "h"
            renames[v] = name
            used.add(name)
    # a substituted caller name must not be captured by a helper local of the same name
    for p, e in subst.items():
        if isinstance(e, ast.Name) and e.id in stored and e.id not in renames:
            raise Fail("capture")
    return prelude, subst, renames


def _attr_chain(e):
    while isinstance(e, ast.Attribute):
        e = e.value
    return isinstance(e, ast.Name)


def _live_after(caller, stmt, v):
    """may the caller read its variable v after statement stmt (before writing it again)?  conservative (True when unsure)"""
    try:
        from .cfg import CFG
        g = CFG(caller)
    except Exception:
        return True
    starts = [n for n in g.nodes if n.ast is stmt or (getattr(n.ast, "test", None) is not None and n.ast is stmt)]
    if not starts:
        return True
    seen, stack = set(), []
    for s in starts:
        stack.extend(b for b, _ in g.succ.get(s.id, []))
    while stack:
        i = stack.pop()
        if i in seen:
            continue
        seen.add(i)
        n = g.nodes[i]
        loads = stores = False
        for x in g.walk_node(n):
            if isinstance(x, ast.Name) and x.id == v:
                if isinstance(x.ctx, ast.Load):
                    loads = True
                else:
                    stores = True
            elif isinstance(x, ast.ExceptHandler) and x.name == v:
                stores = True
        if n.kind == "except" and getattr(n.ast, "name", None) == v:
            stores = True
        if loads:
            return True
        if stores:
            continue
        stack.extend(b for b, _ in g.succ.get(i, []))
    return False


def _nest(stmts):
    """`if c: ...return` followed by more statements  ->  if c: ... else: <rest>   (so every return is in tail position
    unless it sits in a loop)"""
    out = []
    for i, s in enumerate(stmts):
        if isinstance(s, ast.Try) and not s.finalbody and stmts[i + 1:] and s.handlers and _has_return([s]) and \
                all(_ends_in_jump(h.body) for h in s.handlers) and not _ends_in_jump(s.orelse):
            # every handler leaves: what follows the try runs exactly when no exception was caught = the else clause
            # (which, like the code after the statement, is not protected by the handlers)
            s = clone(s)
            s.orelse = _nest(list(s.orelse) + list(stmts[i + 1:]))
            for h in s.handlers:
                h.body = _nest(h.body)
            out.append(s)
            return out
        if isinstance(s, ast.If):
            s = ast.copy_location(ast.If(test=s.test, body=_nest(s.body), orelse=_nest(s.orelse)), s)
            rest = stmts[i + 1:]
            if rest and (_has_return(s.body) or _has_return(s.orelse)):
                if _ends_in_jump(s.body) and not s.orelse:
                    s.orelse = _nest(rest)
                    out.append(s)
                    return out
                if s.orelse and _ends_in_jump(s.body) and not _ends_in_jump(s.orelse):
                    s.orelse = _nest(list(s.orelse) + list(rest))
                    out.append(s)
                    return out
                if s.orelse and _ends_in_jump(s.orelse) and not _ends_in_jump(s.body):
                    s.body = _nest(list(s.body) + list(rest))
                    out.append(s)
                    return out
                if sum(1 for r in rest for _ in ast.walk(r)) <= 60:
                    # some path through the `if` falls through to the rest and some other returns: give every falling
                    # path its own copy of the (small) rest, so that every return ends up in tail position
                    s.body = _nest(list(s.body) if _ends_in_jump(s.body) else list(s.body) + clone(list(rest)))
                    s.orelse = _nest(list(s.orelse) if _ends_in_jump(s.orelse) else list(s.orelse) + clone(list(rest)))
                    out.append(s)
                    return out
        out.append(s)
    return out


def _has_return(stmts):
    return any(isinstance(n, ast.Return) for n in _own(stmts))


def _truth(e):
    if e is None:
        return False
    if isinstance(e, ast.Constant):
        return bool(e.value)
    return None


_TRY_OK = [False]


def _expand(stmts, cont, tail, in_loop=False):
    """replace every Return in stmts by cont(value, tail_position)"""
    out = []
    for i, s in enumerate(stmts):
        last = tail and i == len(stmts) - 1
        if isinstance(s, ast.Return):
            out.extend(cont(s.value, last and not in_loop, s))
            return out      # statements after a return are dead
        if isinstance(s, ast.If):
            s = ast.copy_location(ast.If(test=s.test, body=_expand(s.body, cont, last, in_loop) or [ast.copy_location(ast.Pass(), s)],
                                         orelse=_expand(s.orelse, cont, last, in_loop)), s)
        elif isinstance(s, (ast.For, ast.While)):
            if _has_return(s.orelse):
                raise Fail("return in loop else")
            s = clone(s)
            s.body = _expand(s.body, cont, False, True) or [ast.copy_location(ast.Pass(), s)]
        elif isinstance(s, ast.Try) and _has_return([s]) and last and not in_loop and _TRY_OK[0] and not s.finalbody and not s.orelse:
            # the try statement ends the helper: a return inside it becomes the (non-raising) continuation in the same place
            s2 = clone(s)
            s2.body = _expand(s.body, cont, True, in_loop) or [ast.copy_location(ast.Pass(), s)]
            for h, h2 in zip(s.handlers, s2.handlers):
                h2.body = _expand(h.body, cont, True, in_loop) or [ast.copy_location(ast.Pass(), s)]
            out.append(s2)
            return out
        elif isinstance(s, ast.Try) and not s.finalbody and not _has_return(s.body) and _has_return([s]):
            # returns in the handlers only: a handler is not protected by its own try, so the continuation means the same there
            # (it must not re-raise the handled exception by a bare raise of its own: checked on what cont produces)
            s2 = clone(s)
            for h, h2 in zip(s.handlers, s2.handlers):
                h2.body = _expand(h.body, cont, last, in_loop) or [ast.copy_location(ast.Pass(), s)]
                if any(isinstance(x, ast.Raise) and x.exc is None for b in h2.body for x in ast.walk(b)) and \
                        not any(isinstance(x, ast.Raise) and x.exc is None for b in h.body for x in ast.walk(b)):
                    raise Fail("continuation with a bare raise inside a handler")
            if _has_return(s.orelse):
                s2.orelse = _expand(s.orelse, cont, last, in_loop) or [ast.copy_location(ast.Pass(), s)]
            s = s2
        elif isinstance(s, (ast.Try, ast.With)) and _has_return([s]):
            raise Fail("return under try/with")
        out.append(s)
    if tail and not in_loop and not _ends_in_jump(stmts):
        # the helper can fall off its end here: implicit `return None` (judged on the helper's own statements: a return
        # that expanded to nothing must not be mistaken for falling through)
        out.extend(cont(None, True, stmts[-1] if stmts else None, implicit=True))
    return out


def _inline_stmt(st, helper, call, caller, mode, extra=None):
    """statements that replace st.  mode: expr | assign | return | if (extra = (negated,))"""
    out = _inline_stmt0(st, helper, call, caller, mode, extra)
    helper.used = getattr(helper, "used", 0) + 1
    return out


def _inline_stmt0(st, helper, call, caller, mode, extra=None):
    prelude, subst, renames = _bind(helper, call, caller, st)
    body = clone(helper.body)
    sub = _Subst(subst, renames)
    body = [sub.visit(b) for b in body]
    body = _nest(body)

    def loc(n):
        return ast.copy_location(n, st)

    if mode == "return":
        def cont(v, tail, at, implicit=False):
            return [loc(ast.Return(value=v))]
    elif mode == "expr":
        def cont(v, tail, at, implicit=False):
            if not tail:
                raise Fail("early return in statement helper")
            if v is None or isinstance(v, (ast.Constant, ast.Name)):
                return []
            return [loc(ast.Expr(value=v))]
    elif mode == "assign":
        def cont(v, tail, at, implicit=False):
            if not tail:
                raise Fail("early return in value helper")
            new = clone(st)
            new.value = v if v is not None else ast.Constant(value=None)
            seq = _sequential(new)
            return [loc(x) for x in seq] if seq is not None else [loc(new)]
    elif mode == "if":
        negated = extra
        then, other = (st.orelse, st.body) if negated else (st.body, st.orelse)   # then: helper returned truthy
        t_term, o_term = _ends_in_jump(then), _ends_in_jump(other)

        def cont(v, tail, at, implicit=False):
            tv = _truth(v)
            if tv is None:
                if not tail and not (t_term and o_term):
                    raise Fail("non-constant early return")
                n = ast.If(test=v, body=clone(then) or [ast.Pass()], orelse=clone(other))
                return [ast.fix_missing_locations(loc(n))]
            arm, term = (then, t_term) if tv else (other, o_term)
            if not tail and not term:
                raise Fail("early return needs a jumping continuation")
            return clone(arm)
    elif mode == "subst":
        # st evaluates the helper call (extra) before anything else with an effect: every return of the helper continues
        # with st, the call replaced by the returned value
        def cont(v, tail, at, implicit=False):
            if not tail:
                raise Fail("early return in value helper")
            v = v if v is not None else ast.Constant(value=None)
            if isinstance(st, ast.AugAssign) and isinstance(st.op, (ast.Add, ast.Sub)) and isinstance(st.target, ast.Name) and \
                    st.value is call and isinstance(v, ast.Constant) and type(v.value) is int and v.value == 0:
                return []           # `n += 0` where the helper's other returns are numbers too
            if isinstance(st, ast.AugAssign) and isinstance(st.op, (ast.Add, ast.Sub)) and st.value is call and \
                    isinstance(v, ast.UnaryOp) and isinstance(v.op, ast.USub) and isinstance(v.operand, ast.Constant):
                flipped = clone(st)                 # `n += -1` is written `n -= 1`
                flipped.op = ast.Sub() if isinstance(st.op, ast.Add) else ast.Add()
                flipped.value = v.operand
                return [ast.fix_missing_locations(loc(flipped))]
            new = _ReplaceNode(call, v).visit(clone_keep(st, call))
            return [ast.fix_missing_locations(loc(new))]
    else:
        raise Fail(mode)
    def plain(t):
        return isinstance(t, ast.Name) or (isinstance(t, ast.Attribute) and isinstance(t.value, ast.Name))
    _TRY_OK[0] = mode in ("return", "expr") or (mode == "assign" and isinstance(st, ast.Assign) and all(plain(t) for t in st.targets))
    try:
        new = _expand(body, cont, True)
    finally:
        _TRY_OK[0] = False
    return prelude + new


def _sequential(st):
    """`a, b, c = (x, y, z)` -> `a = x; b = y; c = z` when no later value reads an earlier target (plain names only): the
    parallel assignment a value-returning helper leaves behind"""
    if not (isinstance(st, ast.Assign) and len(st.targets) == 1 and isinstance(st.targets[0], (ast.Tuple, ast.List)) and
            isinstance(st.value, (ast.Tuple, ast.List)) and len(st.value.elts) == len(st.targets[0].elts)):
        return None
    ts, vs = st.targets[0].elts, st.value.elts
    if not all(isinstance(t, ast.Name) for t in ts) or any(isinstance(v, ast.Starred) for v in vs):
        return None
    for i, t in enumerate(ts):
        for v in vs[i + 1:]:
            if any(isinstance(x, ast.Name) and x.id == t.id for x in ast.walk(v)):
                return None
    out = []
    for t, v in zip(ts, vs):
        if isinstance(v, ast.Name) and v.id == t.id:
            continue
        out.append(ast.fix_missing_locations(ast.copy_location(ast.Assign(targets=[ast.Name(id=t.id, ctx=ast.Store())], value=v), st)))
    return out


def _self_assign(st):
    """`x = x` / `x, y = (x, y)`: left over when a helper's locals coincide with the variables its result is assigned to"""
    if isinstance(st, ast.Assign) and len(st.targets) == 1:
        t, v = st.targets[0], st.value
        if isinstance(t, ast.Name) and isinstance(v, ast.Name) and t.id == v.id:
            return True
        if isinstance(t, (ast.Tuple, ast.List)) and isinstance(v, (ast.Tuple, ast.List)) and len(t.elts) == len(v.elts) and \
                all(isinstance(a, ast.Name) and isinstance(b, ast.Name) and a.id == b.id for a, b in zip(t.elts, v.elts)):
            return True
    return False


def _call_of(e, helpers, cls):
    """helper called by expression e (a Call), resolved for a caller in class cls, or None"""
    if not isinstance(e, ast.Call):
        return None
    f = e.func
    if isinstance(f, ast.Name) and helpers.get((None, f.id)) is not None:
        return helpers.get((None, f.id))
    if isinstance(f, ast.Attribute) and isinstance(f.value, ast.Name) and cls is not None:
        if f.value.id in ("self", "cls") or f.value.id == cls:
            # the class itself, then its bases defined in this module (a helper extracted into the common base class)
            bases = helpers.get("__bases__", {})
            definers = helpers.get("__definers__", {}).get(f.attr, set())
            if f.value.id != cls:
                # `self` may be an instance of a subclass: one that defines the name itself makes the call polymorphic
                subs, grew = {cls}, True
                while grew:
                    grew = False
                    for k, bs in bases.items():
                        if k not in subs and any(b in subs for b in bs):
                            subs.add(k)
                            grew = True
                if (subs - {cls}) & definers:
                    return None
            seen, todo = set(), [cls]
            while todo:
                c = todo.pop(0)
                if c in seen:
                    continue
                seen.add(c)
                h = helpers.get((c, f.attr))
                if h is not None:
                    return h
                if c in definers:
                    return None     # the nearest definition is not a new helper
                todo.extend(bases.get(c, []))
        elif (f.value.id, f.attr) in helpers and helpers[(f.value.id, f.attr)].static:
            return helpers[(f.value.id, f.attr)]
    # a name that is new to the whole program and defined exactly once resolves to that definition whatever the receiver
    uniq = helpers.get("__unique__")
    if uniq:
        if isinstance(f, ast.Name):
            h = uniq.get(f.id)
            if h is not None and h.owner is None:
                return h
        elif isinstance(f, ast.Attribute) and _attr_chain(f.value):
            h = uniq.get(f.attr)
            if h is None:
                return None
            if h.is_method and not h.classm and isinstance(f.value, ast.Name) and f.value.id[:1].isupper():
                return None         # Class.method(obj, ..): unbound call, not expanded
            return h
    return None


class _ExprInliner(ast.NodeTransformer):
    """single-expression helpers inside larger expressions"""

    def __init__(self, helpers, cls, caller):
        self.helpers, self.cls, self.caller, self.hit = helpers, cls, caller, 0

    def visit_Call(self, n):
        self.generic_visit(n)
        h = _call_of(n, self.helpers, self.cls)
        if h is None or len(h.body) != 1 or not isinstance(h.body[0], ast.Return) or h.body[0].value is None:
            return n
        try:
            prelude, subst, renames = _bind(h, n, self.caller, n)
        except Fail:
            return n
        if prelude or renames:
            return n
        self.hit += 1
        h.used = getattr(h, "used", 0) + 1
        return ast.copy_location(_Subst(subst, {}).visit(clone(h.body[0].value)), n)


def _calls_in_eval_order(e):
    """Call nodes of expression e in the order their calls complete (callee and arguments before the call itself)"""
    out = []

    def rec(n):
        if isinstance(n, (ast.Lambda, ast.GeneratorExp, ast.ListComp, ast.SetComp, ast.DictComp, ast.IfExp, ast.BoolOp)):
            out.append(None)        # conditional / deferred evaluation: nothing behind this point may be hoisted
            return
        for c in ast.iter_child_nodes(n):
            rec(c)
        if isinstance(n, ast.Call):
            out.append(n)
    rec(e)
    return out


class _ReplaceNode(ast.NodeTransformer):
    def __init__(self, old, new):
        self.old, self.new = old, new

    def visit(self, n):
        if n is self.old:
            return self.new
        return self.generic_visit(n)


def _hoist(st, helpers, cls, caller, stats):
    """`stmt(... helper(args) ...)` with a multi-statement new helper called inside a larger expression ->
    `_hN = helper(args); stmt(... _hN ...)` when the helper call is the first call the statement evaluates (super() aside),
    so that the assign form of the inliner applies.  Returns [assign, stmt] or None."""
    if not isinstance(st, (ast.Expr, ast.Assign, ast.Return, ast.AugAssign)) or getattr(st, "value", None) is None:
        return None
    for c in _calls_in_eval_order(st.value):
        if c is None:
            return None
        if isinstance(c.func, ast.Name) and c.func.id == "super":
            continue
        h = _call_of(c, helpers, cls)
        if h is None or c is st.value:
            return None
        if len(h.body) == 1 and isinstance(h.body[0], ast.Return):
            return None             # single expression helper: the expression inliner's business
        if sum(1 for x in _own(h.body) if isinstance(x, ast.Return)) > 1:
            try:
                rep = _inline_stmt(st, h, c, caller, "subst")
                stats["inlined"] = stats.get("inlined", 0) + 1
                return rep or [ast.copy_location(ast.Pass(), st)]
            except Fail as ex:
                stats.setdefault("failed", []).append(str(ex))
        k = stats["hoisted"] = stats.get("hoisted", 0) + 1
        tmp = "_h%d" % k
        asg = ast.copy_location(ast.Assign(targets=[ast.Name(id=tmp, ctx=ast.Store())], value=c), st)
        st.value = _ReplaceNode(c, ast.copy_location(ast.Name(id=tmp, ctx=ast.Load()), c)).visit(st.value)
        ast.fix_missing_locations(asg)
        return [asg, st]
    return None


def _rewrite_block(stmts, helpers, cls, caller, stats):
    out = []
    todo = list(stmts)
    while todo:
        st = todo.pop(0)
        hs = _hoist(st, helpers, cls, caller, stats)
        if hs is not None:
            todo[0:0] = hs
            continue
        for fld in ("body", "orelse", "finalbody"):
            if isinstance(getattr(st, fld, None), list) and not isinstance(st, (ast.FunctionDef, ast.AsyncFunctionDef, ast.ClassDef)):
                setattr(st, fld, _rewrite_block(getattr(st, fld), helpers, cls, caller, stats))
        if isinstance(st, ast.Try):
            for h in st.handlers:
                h.body = _rewrite_block(h.body, helpers, cls, caller, stats)
        rep = None
        try:
            if isinstance(st, ast.Expr) and _call_of(st.value, helpers, cls):
                rep = _inline_stmt(st, _call_of(st.value, helpers, cls), st.value, caller, "expr")
            elif isinstance(st, ast.Assign) and _call_of(st.value, helpers, cls):
                rep = _inline_stmt(st, _call_of(st.value, helpers, cls), st.value, caller, "assign")
            elif isinstance(st, ast.Return) and st.value is not None and _call_of(st.value, helpers, cls):
                rep = _inline_stmt(st, _call_of(st.value, helpers, cls), st.value, caller, "return")
            elif isinstance(st, ast.AugAssign) and isinstance(st.target, ast.Name) and _call_of(st.value, helpers, cls):
                rep = _inline_stmt(st, _call_of(st.value, helpers, cls), st.value, caller, "subst")
            elif isinstance(st, ast.If):
                t, neg = st.test, False
                if isinstance(t, ast.UnaryOp) and isinstance(t.op, ast.Not):
                    t, neg = t.operand, True
                if _call_of(t, helpers, cls):
                    rep = _inline_stmt(st, _call_of(t, helpers, cls), t, caller, "if", neg)
        except Fail as ex:
            stats.setdefault("failed", []).append(str(ex))
            rep = None
        if rep is not None:
            rep = [r for r in rep if not _self_assign(r)]
            stats["inlined"] = stats.get("inlined", 0) + 1
            rep = _rewrite_block(rep, helpers, cls, caller, stats) if stats.get("depth", 0) < 3 else rep
            out.extend(rep or [ast.copy_location(ast.Pass(), st)])
        else:
            out.append(st)
    return out or stmts


NEW_UNIQUE = {}     # name -> Helper: functions/methods new to the whole program (absent from the reference under any name),
                    # defined exactly once; filled by prepare_program() before the modules are normalised


def import_map(tree):
    """module-level name -> what the import statement binds it to"""
    out = {}
    for n in ast.walk(tree):
        if isinstance(n, ast.Import):
            for a in n.names:
                out[a.asname or a.name.split(".")[0]] = ("import", a.name if a.asname else a.name.split(".")[0])
        elif isinstance(n, ast.ImportFrom):
            for a in n.names:
                out[a.asname or a.name] = ("from", n.level, n.module, a.name)
    return out


_BUILTIN_ATTRS = set()
for _t in (str, bytes, bytearray, list, dict, set, frozenset, tuple, int, float, object, type):
    _BUILTIN_ATTRS |= set(dir(_t))
import collections as _c
for _t in (_c.deque, _c.OrderedDict):
    _BUILTIN_ATTRS |= set(dir(_t))


def _free_names(fn):
    import builtins
    bound = {a.arg for a in fn.args.posonlyargs + fn.args.args + fn.args.kwonlyargs}
    loads = set()
    for n in _own(fn):
        if isinstance(n, ast.Name):
            (loads if isinstance(n.ctx, ast.Load) else bound).add(n.id)
        elif isinstance(n, ast.ExceptHandler) and n.name:
            bound.add(n.name)
        elif isinstance(n, (ast.ListComp, ast.SetComp, ast.DictComp, ast.GeneratorExp)):
            for g in n.generators:
                for x in ast.walk(g.target):
                    if isinstance(x, ast.Name):
                        bound.add(x.id)
    return {g for g in loads - bound if not hasattr(builtins, g)}


def prepare_program(changed, ref_functions, known):
    """changed: {relpath: normal-form tree} of the modules that differ from the reference"""
    NEW_UNIQUE.clear()
    cands = {}
    for rel, tree in changed.items():
        ref = ref_functions.get(rel, {})
        for n in tree.body:
            items = []
            if isinstance(n, ast.FunctionDef):
                items = [(None, n)]
            elif isinstance(n, ast.ClassDef):
                items = [(n.name, m) for m in n.body if isinstance(m, ast.FunctionDef)]
            for cls, fn in items:
                q = (cls + "." if cls else "") + fn.name
                if q in ref or fn.name in known:
                    continue
                cands.setdefault(fn.name, []).append((rel, cls, fn, tree))
    for name, lst in cands.items():
        if len(lst) != 1 or name in _BUILTIN_ATTRS:
            continue
        rel, cls, fn, tree = lst[0]
        if not Helper.eligible(fn):
            continue
        static = any(isinstance(d, ast.Name) and d.id == "staticmethod" for d in fn.decorator_list)
        h = Helper(fn, cls, static)
        h.relpath = rel
        h.free = _free_names(fn)
        h.imports = import_map(tree)
        NEW_UNIQUE[name] = h


def foreign_folded():
    """[(relpath, class or None, name)] of program-wide helpers that were expanded somewhere"""
    return [(h.relpath, h.owner, n) for n, h in NEW_UNIQUE.items() if getattr(h, "used", 0) > 0]


def inline_new_properties(tree, ref_mod, all_known):
    """a read-only property that is new to the program, whose getter is a single `return <expr>` over self, and that has no
    setter: `x.p` means `<expr>[self := x]` wherever it is read in this module (x a name or attribute chain)"""
    props = {}
    for c in tree.body:
        if not isinstance(c, ast.ClassDef):
            continue
        for m in c.body:
            if isinstance(m, ast.FunctionDef) and len(m.decorator_list) == 1 and dotted_name(m.decorator_list[0]) == "property" and \
                    (c.name + "." + m.name) not in ref_mod and m.name not in all_known and m.name not in _BUILTIN_ATTRS:
                body = _strip_doc(m.body)
                if len(body) == 1 and isinstance(body[0], ast.Return) and body[0].value is not None and len(m.args.args) == 1 and _pure(body[0].value):
                    if m.name in props:
                        props[m.name] = None
                    else:
                        props[m.name] = (c, m, body[0].value)
    # a name that is also stored as an attribute anywhere here is not just this property
    stored = {n.attr for n in ast.walk(tree) if isinstance(n, ast.Attribute) and isinstance(n.ctx, (ast.Store, ast.Del))}
    others = {f.name for c in tree.body if isinstance(c, ast.ClassDef) for f in c.body if isinstance(f, ast.FunctionDef)}
    props = {k: v for k, v in props.items() if v is not None and k not in stored and
             sum(1 for c in tree.body if isinstance(c, ast.ClassDef) for f in c.body if isinstance(f, ast.FunctionDef) and f.name == k) == 1}
    if not props:
        return 0
    hits = [0]

    class R(ast.NodeTransformer):
        def visit_Attribute(self, n):
            self.generic_visit(n)
            if isinstance(n.ctx, ast.Load) and n.attr in props and _attr_chain(n.value):
                c, m, e = props[n.attr]
                hits[0] += 1
                return ast.copy_location(_Subst({m.args.args[0].arg: n.value}, {}).visit(clone(e)), n)
            return n
    for c in tree.body:
        if isinstance(c, ast.ClassDef):
            for i, f in enumerate(c.body):
                if isinstance(f, ast.FunctionDef) and not (f.name in props and props[f.name][1] is f):
                    c.body[i] = R().visit(f)
        elif isinstance(c, ast.FunctionDef):
            tree.body[tree.body.index(c)] = R().visit(c)
    if hits[0]:
        for k, (c, m, e) in props.items():
            if not any(isinstance(n, ast.Attribute) and n.attr == k for n in ast.walk(tree) if n is not m):
                c.body = [x for x in c.body if x is not m] or [ast.Pass()]
        ast.fix_missing_locations(tree)
    return hits[0]


def dotted_name(e):
    parts = []
    while isinstance(e, ast.Attribute):
        parts.append(e.attr)
        e = e.value
    if isinstance(e, ast.Name):
        parts.append(e.id)
        return ".".join(reversed(parts))
    return None


def inline_new_helpers(tree, ref_mod, known_names):
    """ref_mod: {qualname: ...} of this module in the reference; known_names: every function/method name in the reference"""
    helpers = {}

    def collect(body, cls):
        for n in body:
            if isinstance(n, ast.FunctionDef):
                q = (cls + "." if cls else "") + n.name
                if q not in ref_mod and n.name not in known_names and Helper.eligible(n):
                    static = any(isinstance(d, ast.Name) and d.id == "staticmethod" for d in n.decorator_list)
                    helpers[(cls, n.name)] = Helper(n, cls, static)
            elif isinstance(n, ast.ClassDef) and cls is None:
                bases.setdefault(n.name, [b.id for b in n.bases if isinstance(b, ast.Name)])
                collect(n.body, n.name)
    bases = {}
    collect(tree.body, None)
    stats = {"helpers": sorted("%s.%s" % (c, f) if c else f for c, f in helpers)}
    if not helpers and not NEW_UNIQUE:
        return stats
    # a method name that several classes of this module define is polymorphic: `self.f()` written in class C means C's nearest
    # definition only if no subclass of C overrides f (see _call_of)
    definers = {}
    for n in tree.body:
        if isinstance(n, ast.ClassDef):
            for m in n.body:
                if isinstance(m, ast.FunctionDef):
                    definers.setdefault(m.name, set()).add(n.name)
    helpers["__bases__"] = bases
    helpers["__definers__"] = definers
    uniq = {}
    for k, h in list(helpers.items()):
        if isinstance(h, Helper) and isinstance(k, tuple) and k[1] in NEW_UNIQUE:
            uniq[k[1]] = h
    here = import_map(tree)
    for f, h in NEW_UNIQUE.items():
        if f in uniq or h.relpath == getattr(tree, "_relpath", None):
            continue
        missing = [g for g in h.free if not (g in here and here.get(g) == h.imports.get(g))]
        # a plain `import <library module>` the helper's module has and this one lacks can be added here
        if all(h.imports.get(g, ("?",))[0] == "import" and not str(h.imports[g][1]).startswith("ioflo") and g not in here and
               g == h.imports[g][1] for g in missing):
            h.needs_imports = missing
            uniq[f] = h
    helpers["__unique__"] = uniq

    def visit(body, cls):
        for n in body:
            if isinstance(n, ast.FunctionDef):
                for _ in range(3):      # helpers calling helpers
                    before = stats.get("inlined", 0)
                    n.body = _rewrite_block(n.body, helpers, cls, n, stats)
                    ei = _ExprInliner(helpers, cls, n)
                    n.body = [ei.visit(s) for s in n.body]
                    stats["inlined"] = stats.get("inlined", 0) + ei.hit
                    if stats.get("inlined", 0) == before:
                        break
            elif isinstance(n, ast.ClassDef) and cls is None:
                visit(n.body, n.name)
    visit(tree.body, None)
    # module-level statements (package __init__ files run their import loops there)
    if isinstance(tree, ast.Module):
        top = [st for st in tree.body if not isinstance(st, (ast.FunctionDef, ast.AsyncFunctionDef, ast.ClassDef))]
        if any(isinstance(x, ast.Call) and _call_of(x, helpers, None) is not None for st in top if isinstance(st, ast.Expr) for x in [st.value]):
            pseudo = ast.FunctionDef(name="<module>", args=ast.arguments(posonlyargs=[], args=[], kwonlyargs=[], kw_defaults=[], defaults=[]),
                                     body=top, decorator_list=[])
            new_body = []
            for st in tree.body:
                if isinstance(st, ast.Expr) and isinstance(st.value, ast.Call) and _call_of(st.value, helpers, None) is not None:
                    try:
                        rep = _inline_stmt(st, _call_of(st.value, helpers, None), st.value, pseudo, "expr")
                        stats["inlined"] = stats.get("inlined", 0) + 1
                        new_body.extend(rep or [ast.copy_location(ast.Pass(), st)])
                        continue
                    except Fail as ex:
                        stats.setdefault("failed", []).append(str(ex))
                new_body.append(st)
            tree.body = new_body
    need = sorted({g for h in uniq.values() if getattr(h, "used", 0) and h.relpath != getattr(tree, "_relpath", None)
                   for g in getattr(h, "needs_imports", [])})
    if need and isinstance(tree, ast.Module):
        at = 0
        while at < len(tree.body) and (_strip_doc(tree.body[at:at + 1]) == [] or
                                       (isinstance(tree.body[at], ast.ImportFrom) and tree.body[at].module == "__future__")):
            at += 1
        for g in need:
            if not any(isinstance(st, ast.Import) and any((a.asname or a.name) == g for a in st.names) for st in tree.body):
                tree.body.insert(at, ast.Import(names=[ast.alias(name=g, asname=None)]))
    # a helper with no call left in the module has been folded into its callers: the copy that remains is dead as far as this
    # module is concerned; who-may-write rules attribute its effects to the callers (the expanded copies), not to it
    bases = helpers.pop("__bases__", {})
    helpers.pop("__unique__", None)
    helpers.pop("__definers__", None)
    remaining = {}
    for n in ast.walk(tree):
        if isinstance(n, ast.Call):
            f = n.func
            nm = f.id if isinstance(f, ast.Name) else f.attr if isinstance(f, ast.Attribute) else None
            if nm:
                remaining[nm] = remaining.get(nm, 0) + 1
        elif isinstance(n, ast.Attribute) and isinstance(n.ctx, ast.Load):
            pass
    for (c, f), h in helpers.items():
        if remaining.get(f, 0) == 0 and getattr(h, "used", 0) > 0:      # expanded somewhere here and called nowhere any more
            h.fn._folded = True
    stats["folded"] = sorted(f for (c, f), h in helpers.items() if getattr(h.fn, "_folded", False))
    # ... and is removed from the tree, so that who-may-call / who-may-write / sibling rules see the program as it was
    # before the extraction (a caller in another module would become an unresolved call: silent, or a D3 report)
    gone = {id(h.fn) for h in helpers.values() if getattr(h.fn, "_folded", False)}
    if gone:
        for holder in [tree] + [n for n in tree.body if isinstance(n, ast.ClassDef)]:
            holder.body = [n for n in holder.body if id(n) not in gone] or [ast.Pass()]
    ast.fix_missing_locations(tree)
    return stats


# ------------------------------------------------------------------------------------------------ N4
def _reads(e):
    names, attrs = set(), False
    for n in ast.walk(e):
        if isinstance(n, ast.Name):
            names.add(n.id)
        elif isinstance(n, (ast.Attribute, ast.Subscript)):
            attrs = True
    return names, attrs


def _pure(e):
    for n in ast.walk(e):
        if isinstance(n, (ast.Yield, ast.YieldFrom, ast.Await, ast.NamedExpr, ast.Lambda, ast.ListComp, ast.SetComp,
                          ast.DictComp, ast.GeneratorExp, ast.List, ast.Dict, ast.Set, ast.JoinedStr, ast.Starred)):
            return False        # a display builds a new (mutable) object at every evaluation: identity matters
        if isinstance(n, ast.Call) and not (isinstance(n.func, ast.Name) and n.func.id in PURE_CALLS):
            return False
    return True


_PROGRAM = {"files": None, "stable": None}


def stable_attrs():
    """attribute names that the program binds only in constructors (`obj.a = ..` appears only inside functions called __init__,
    no setattr/delattr with that constant name, no class-level rebinding elsewhere): once an object is built, `obj.a` denotes the
    same object for good, so reading it again later yields what an earlier read yielded"""
    if _PROGRAM["stable"] is not None:
        return _PROGRAM["stable"]
    where = {}
    files = _PROGRAM["files"] or {}
    for rel, text in files.items():
        if not text or text == "\0DELETED":
            continue
        try:
            tree = ast.parse(text)
        except (SyntaxError, RecursionError, ValueError):
            continue
        stack = [(tree, "<module>")]
        while stack:
            node, fn = stack.pop()
            for c in ast.iter_child_nodes(node):
                f = c.name if isinstance(c, (ast.FunctionDef, ast.AsyncFunctionDef)) else fn
                if isinstance(c, ast.Attribute) and isinstance(c.ctx, (ast.Store, ast.Del)):
                    where.setdefault(c.attr, set()).add(fn)
                elif isinstance(c, ast.Call) and isinstance(c.func, ast.Name) and c.func.id in ("setattr", "delattr") and len(c.args) >= 2:
                    if isinstance(c.args[1], ast.Constant) and isinstance(c.args[1].value, str):
                        where.setdefault(c.args[1].value, set()).add(fn)
                    else:
                        where.setdefault("*", set()).add(fn)
                stack.append((c, f))
    dyn = "*" in where and False    # setattr with computed names exists in data containers (odict/Data/Share); those are not
    #                                 attribute names of the framework objects the rules talk about
    _PROGRAM["stable"] = {a for a, fs in where.items() if fs <= {"__init__"}}
    return _PROGRAM["stable"]


def _stable_expr(e):
    """`self.a` / `self.a.b` with every attribute constructor-only"""
    if not isinstance(e, ast.Attribute):
        return False
    st = stable_attrs()
    while isinstance(e, ast.Attribute):
        if e.attr not in st:
            return False
        e = e.value
    return isinstance(e, ast.Name) and e.id == "self"


_PURE_FUNCS = set()       # module-level functions of the module being normalised that write nothing but their own locals


def pure_functions(tree):
    """names of module-level functions that cannot change anything a caller can see: no attribute/subscript store or delete,
    no global/nonlocal, no yield, calls only to PURE_CALLS/ITER_CALLS, math.* and to other such functions (least fixpoint from
    the optimistic set); a module-level name rebound anywhere is excluded"""
    if not isinstance(tree, ast.Module):
        return set()
    fns = {n.name: n for n in tree.body if isinstance(n, ast.FunctionDef)}
    stores = {}
    for n in ast.walk(tree):
        if isinstance(n, ast.Name) and isinstance(n.ctx, (ast.Store, ast.Del)):
            stores[n.id] = stores.get(n.id, 0) + 1
        elif isinstance(n, ast.arg):
            stores[n.arg] = stores.get(n.arg, 0) + 1
    cand = {k for k in fns if not stores.get(k)}
    changed = True
    while changed:
        changed = False
        for k in sorted(cand):
            ok = True
            for x in ast.walk(fns[k]):
                if isinstance(x, (ast.Attribute, ast.Subscript)) and isinstance(x.ctx, (ast.Store, ast.Del)):
                    ok = False
                elif isinstance(x, (ast.Global, ast.Nonlocal, ast.Yield, ast.YieldFrom, ast.Await, ast.AugAssign)) and \
                        not (isinstance(x, ast.AugAssign) and isinstance(x.target, ast.Name)):
                    ok = False
                elif isinstance(x, ast.Call):
                    f = x.func
                    if isinstance(f, ast.Name) and (f.id in PURE_CALLS | ITER_CALLS or f.id in cand):
                        continue
                    if isinstance(f, ast.Attribute) and isinstance(f.value, ast.Name) and f.value.id == "math":
                        continue
                    if isinstance(f, ast.Attribute) and isinstance(f.value, ast.Constant):
                        continue            # "..".format(..) and the like
                    if isinstance(f, ast.Name) and f.id not in fns and isinstance(getattr(__builtins__, "get", lambda k: getattr(__builtins__, k, None))(f.id), type) \
                            and issubclass(getattr(__builtins__, "get", lambda k: getattr(__builtins__, k, None))(f.id), BaseException):
                        continue            # building an exception to raise
                    ok = False
                if not ok:
                    break
            if not ok:
                cand.discard(k)
                changed = True
    for st in tree.body:            # `left = ccw`: a module-level alias, bound once, of such a function
        if isinstance(st, ast.Assign) and len(st.targets) == 1 and isinstance(st.targets[0], ast.Name) and \
                isinstance(st.value, ast.Name) and st.value.id in cand and stores.get(st.targets[0].id) == 1:
            cand.add(st.targets[0].id)
    return cand


def substitute_new_temps(fn, ref_locals):
    """N4 on one function; returns the list of substituted names"""
    from .normalize import scope_info
    info = scope_info(fn)
    if info is None:
        return []
    params, locs, _ = info
    refn = {r[0] for r in ref_locals}
    new = [v for v in locs if v not in refn]
    if not new:
        return []
    done = []
    progress = True
    while progress:
        progress = False
        for v in list(new):
            if _copy_rename(fn, v) or _list_fusion(fn, v):
                done.append(v)
                new.remove(v)
                progress = True
    for v in new:
        stores = [n for n in _own(fn) if isinstance(n, ast.Name) and n.id == v and isinstance(n.ctx, (ast.Store, ast.Del))]
        loads = [n for n in _own(fn) if isinstance(n, ast.Name) and n.id == v and isinstance(n.ctx, ast.Load)]
        if len(stores) != 1 or not loads:
            continue
        d = _find_assign(fn.body, stores[0])
        if d is None:
            continue
        block, idx, asg = d
        e = asg.value
        if fn.name != "__init__" and _stable_expr(e):
            twin = _stable_twin(fn, asg, v, e, refn)
            if twin:
                _rename_local(fn, v, twin)
                del block[idx]
                if not block:
                    block.append(ast.copy_location(ast.Pass(), asg))
                done.append(v)
                continue
        if _pure(e):
            if _safe_everywhere(fn, asg, v, e, loads):
                _replace_loads(fn, v, e)
                del block[idx]
                if not block:
                    block.append(ast.copy_location(ast.Pass(), asg))
                done.append(v)
        elif len(loads) == 1 and idx + 1 < len(block):
            nxt = block[idx + 1]
            tgt = None
            if isinstance(nxt, (ast.If, ast.While)):
                tgt = nxt.test
            elif isinstance(nxt, (ast.Return, ast.Assign, ast.Expr)) and nxt.value is not None:
                tgt = nxt.value
            t = tgt
            if isinstance(t, ast.UnaryOp) and isinstance(t.op, ast.Not):
                t = t.operand
            if (t is loads[0] or _first_effect_is(tgt, loads[0])) and not isinstance(nxt, ast.While):
                _replace_loads(nxt, v, e, roots=[nxt])
                del block[idx]
                done.append(v)
    return done


def _simple_statements(fn):
    """(block, index, statement) of every statement in fn (nested blocks included, nested defs not)"""
    out = []

    def rec(block):
        for i, st in enumerate(block):
            out.append((block, i, st))
            if isinstance(st, (ast.FunctionDef, ast.AsyncFunctionDef, ast.ClassDef)):
                continue
            for fld in ("body", "orelse", "finalbody"):
                b = getattr(st, fld, None)
                if isinstance(b, list):
                    rec(b)
            for h in getattr(st, "handlers", []) or []:
                rec(h.body)
    rec(fn.body)
    return out


def _mentions(g, node, name):
    for x in g.walk_node(node):
        if isinstance(x, ast.Name) and x.id == name:
            return True
        if isinstance(x, ast.ExceptHandler) and x.name == name:
            return True
    return getattr(node.ast, "name", None) == name and node.kind == "except"


def _copy_rename(fn, v):
    """`x = v` with v a new temporary that is dead from there on and x not mentioned on any path up to there: v was x all along"""
    from .cfg import CFG
    hits = [(b, i, st) for b, i, st in _simple_statements(fn)
            if isinstance(st, ast.Assign) and len(st.targets) == 1 and isinstance(st.targets[0], ast.Name)
            and isinstance(st.value, ast.Name) and st.value.id == v and st.targets[0].id != v]
    if len(hits) != 1:
        return False
    block, idx, st = hits[0]
    x = st.targets[0].id
    for n in ast.walk(fn):          # closures / comprehension scopes: leave alone
        if isinstance(n, (ast.Lambda, ast.ListComp, ast.SetComp, ast.DictComp, ast.GeneratorExp)) and \
                any(isinstance(m, ast.Name) and m.id in (v, x) for m in ast.walk(n)):
            return False
    if x in {a.arg for a in fn.args.posonlyargs + fn.args.args + fn.args.kwonlyargs}:
        return False
    try:
        g = CFG(fn)
    except Exception:
        return False
    cn = [n for n in g.nodes if n.ast is st]
    if len(cn) != 1:
        return False
    c = cn[0]
    after = g.reachable([b for b, _ in g.succ.get(c.id, [])])
    if c.id in after:
        return False                # the copy sits in a loop
    for n in g.nodes:
        if n.id == c.id:
            continue
        if _mentions(g, n, v) and n.id in after:
            return False
        if _mentions(g, n, x) and n.id not in after:
            return False            # x has a life of its own before the copy
    _rename_local(fn, v, x)
    del block[idx]
    if not block:
        block.append(ast.copy_location(ast.Pass(), st))
    return True


def _list_fusion(fn, t):
    """`t = []; ...t.append(a)...; L.extend(t)` with t a new temporary used for nothing else and L untouched in between:
    the elements go to L directly, in the same order"""
    from .cfg import CFG
    sts = _simple_statements(fn)
    defs, adds, final = [], [], []
    for b, i, st in sts:
        if isinstance(st, (ast.If, ast.While, ast.For, ast.Try, ast.With)):
            # compound statement: only its header expressions count here
            heads = [getattr(st, "test", None), getattr(st, "iter", None), getattr(st, "target", None)] + \
                [it.context_expr for it in getattr(st, "items", [])]
            if any(h is not None and any(isinstance(m, ast.Name) and m.id == t for m in ast.walk(h)) for h in heads):
                return False
            continue
        names = [m for m in ast.walk(st) if isinstance(m, ast.Name) and m.id == t]
        if not names:
            continue
        if isinstance(st, ast.Assign) and len(st.targets) == 1 and st.targets[0] is names[0] and len(names) == 1 and \
                isinstance(st.value, ast.List) and not st.value.elts:
            defs.append((b, i, st))
        elif isinstance(st, ast.Expr) and isinstance(st.value, ast.Call) and isinstance(st.value.func, ast.Attribute) and \
                not st.value.keywords and len(st.value.args) == 1:
            f = st.value.func
            if f.value is names[0] and len(names) == 1 and f.attr in ("append", "extend"):
                adds.append((b, i, st))
            elif isinstance(f.value, ast.Name) and f.attr == "extend" and st.value.args[0] is names[0] and len(names) == 1:
                final.append((b, i, st))
            else:
                return False
        else:
            return False
    if len(defs) != 1 or len(final) != 1:
        return False
    L = final[0][2].value.func.value.id
    if L == t or _try_context(fn, defs[0][2]) != _try_context(fn, final[0][2]):
        return False
    if any(_try_context(fn, a[2]) != _try_context(fn, defs[0][2]) for a in adds):
        return False
    try:
        g = CFG(fn)
    except Exception:
        return False
    dn = [n for n in g.nodes if n.ast is defs[0][2]]
    fnl = [n for n in g.nodes if n.ast is final[0][2]]
    if len(dn) != 1 or len(fnl) != 1:
        return False
    d, f = dn[0], fnl[0]
    if f.id in g.reachable(g.entry.id, removed_nodes=[d.id]):
        return False                # the binding does not dominate the extend
    fwd = g.reachable([b for b, _ in g.succ.get(d.id, [])], removed_nodes=[f.id])
    if d.id in fwd:
        return False                # in a loop that does not pass the extend
    for n in g.nodes:
        if n.id in fwd and n.id != f.id and _mentions(g, n, L):
            return False            # L is read or written while t is being filled
    after = g.reachable([b for b, _ in g.succ.get(f.id, [])])
    for n in g.nodes:
        if n.id in after and n.id != d.id and _mentions(g, n, t) and d.id not in after:
            return False
    for b, i, st in adds:
        st.value.func.value.id = L
    for b, i, st in sorted([defs[0], final[0]], key=lambda z: -z[1]) if defs[0][0] is final[0][0] else [defs[0], final[0]]:
        del b[b.index(st)]
        if not b:
            b.append(ast.copy_location(ast.Pass(), st))
    return True


def _stable_twin(fn, asg, v, e, refn):
    """a local of the reference function whose every binding is `x = <e>` (e a constructor-only attribute of self), one of which
    dominates asg: v is then just another name for x"""
    from .cfg import CFG
    want = ast.dump(e)
    cands = {}
    for n in _own(fn):
        if isinstance(n, ast.Name) and isinstance(n.ctx, (ast.Store, ast.Del)) and n.id != v and n.id in refn:
            cands.setdefault(n.id, []).append(n)
    for x, stores in sorted(cands.items()):
        defs = [_find_assign(fn.body, st) for st in stores]
        if any(d is None or ast.dump(d[2].value) != want for d in defs):
            continue
        try:
            g = CFG(fn)
        except Exception:
            return None
        me = [n.id for n in g.nodes if n.ast is asg]
        theirs = [n.id for n in g.nodes if any(n.ast is d[2] for d in defs)]
        if len(me) == 1 and theirs and me[0] not in g.reachable(g.entry.id, removed_nodes=theirs):
            return x
    return None


def _rename_local(fn, old, new):
    for n in _own(fn):
        if isinstance(n, ast.Name) and n.id == old:
            n.id = new


def _first_effect_is(expr, load):
    """in expr, is `load` evaluated before anything that has an effect or could be affected by a call put in its place?
    True for `obj.stable.method(load, ..)`, `f(load)`, `a + load` with a a plain name: what precedes the load are plain names,
    constants and constructor-only attributes of self"""
    if expr is None:
        return False
    order = []

    def rec(n):
        if n is load:
            order.append("LOAD")
            return
        if isinstance(n, ast.Call):
            if isinstance(n.func, ast.Attribute):
                rec(n.func.value)
            elif not isinstance(n.func, ast.Name):
                rec(n.func)
            for a in n.args:
                rec(a.value if isinstance(a, ast.Starred) else a)
            for k in n.keywords:
                rec(k.value)
            order.append("call")
            return
        if isinstance(n, (ast.Name, ast.Constant)):
            order.append("pure")
            return
        if isinstance(n, ast.Attribute):
            order.append("pure" if _stable_expr(n) else "attr")
            return
        if isinstance(n, (ast.BinOp, ast.Compare, ast.Tuple, ast.UnaryOp)):
            for c in ast.iter_child_nodes(n):
                if isinstance(c, ast.expr):
                    rec(c)
            return
        order.append("other")
    rec(expr)
    if "LOAD" not in order:
        return False
    return all(x == "pure" for x in order[:order.index("LOAD")])


def _find_assign(body, store):
    for i, s in enumerate(body):
        if isinstance(s, ast.Assign) and len(s.targets) == 1 and s.targets[0] is store:
            return body, i, s
        for fld in ("body", "orelse", "finalbody"):
            sub = getattr(s, fld, None)
            if isinstance(sub, list) and not isinstance(s, (ast.FunctionDef, ast.AsyncFunctionDef, ast.ClassDef)):
                r = _find_assign(sub, store)
                if r:
                    return r
        if isinstance(s, ast.Try):
            for h in s.handlers:
                r = _find_assign(h.body, store)
                if r:
                    return r
    return None


def _try_context(fn, target):
    """chain of (Try node id, part) enclosing `target` inside fn: substituting an expression across a try boundary would
    move where its exceptions are (or are not) caught"""
    path = []

    def rec(node, ctx):
        if node is target:
            path.append(tuple(ctx))
            return True
        for fld, val in ast.iter_fields(node):
            items = val if isinstance(val, list) else [val]
            for it in items:
                if isinstance(it, ast.AST):
                    c2 = ctx
                    if isinstance(node, ast.Try) and fld in ("body", "orelse", "finalbody", "handlers"):
                        c2 = ctx + [(id(node), fld if fld != "handlers" else "h%d" % node.handlers.index(it))]
                    if isinstance(it, (ast.FunctionDef, ast.AsyncFunctionDef, ast.Lambda, ast.ClassDef)):
                        continue
                    if rec(it, c2):
                        return True
        return False
    rec(fn, [])
    return path[0] if path else None


def _call_before_load(roots, load_ids):
    """is some (non-pure) call completed before one of the loads is evaluated, in left-to-right evaluation order?"""
    seq = []

    def post(n):
        if isinstance(n, (ast.FunctionDef, ast.AsyncFunctionDef, ast.Lambda, ast.ClassDef)):
            return
        if isinstance(n, ast.Assign):         # value first, then targets
            post(n.value)
            for t in n.targets:
                post(t)
            return
        if isinstance(n, ast.AugAssign):
            post(n.target)
            post(n.value)
            seq.append(n)
            return
        for c in ast.iter_child_nodes(n):
            post(c)
        seq.append(n)
    for r in roots:
        if r is not None:
            post(r)
    called = False
    for n in seq:
        if isinstance(n, ast.Name) and id(n) in load_ids and called:
            return True
        if isinstance(n, ast.Call) and not (isinstance(n.func, ast.Name) and n.func.id in PURE_CALLS | ITER_CALLS):
            called = True
        if isinstance(n, (ast.Attribute, ast.Subscript)) and isinstance(n.ctx, (ast.Store, ast.Del)):
            called = True
    return False


def _may_raise(e):
    """exception class names evaluating e may raise (set), or None for 'anything'"""
    out = set()
    for n in ast.walk(e):
        if isinstance(n, (ast.Name, ast.Constant, ast.Load, ast.expr_context)):
            continue
        if isinstance(n, ast.Attribute):
            out.add("AttributeError")
            continue
        return None
    return out


def _handler_names(h):
    if h.type is None:
        return None
    elts = h.type.elts if isinstance(h.type, ast.Tuple) else [h.type]
    out = set()
    for x in elts:
        if isinstance(x, ast.Name):
            out.add(x.id)
        elif isinstance(x, ast.Attribute):
            out.add(x.attr)
        else:
            return None
    return out


def _safe_everywhere(fn, asg, v, e, loads):
    from .cfg import CFG
    base = _try_context(fn, asg)
    raises = _may_raise(e)
    tries = {id(t): t for t in ast.walk(fn) if isinstance(t, ast.Try)}
    for ld in loads:
        ctx = _try_context(fn, ld)
        if ctx != base:
            # the expression would be evaluated under different handlers: fine only if none of the handlers that differ can
            # catch what it may raise
            if raises is None:
                return False
            diff = set(base or ()) ^ set(ctx or ())
            for tid, part in diff:
                if part != "body":
                    continue
                for h in tries[tid].handlers:
                    names = _handler_names(h)
                    if names is None or names & (raises | {"Exception", "BaseException"}):
                        return False
    try:
        g = CFG(fn)
    except Exception:
        return False
    names, attrs = _reads(e)
    if _stable_expr(e) and fn.name != "__init__":
        attrs = False           # nothing but a constructor rebinds these attributes
    attr_read = {x.attr for x in ast.walk(e) if isinstance(x, ast.Attribute)}
    sub_read = any(isinstance(x, ast.Subscript) for x in ast.walk(e))
    local_names = {x.id for x in _own(fn) if isinstance(x, ast.Name) and isinstance(x.ctx, (ast.Store, ast.Del))} | \
        {a.arg for a in fn.args.posonlyargs + fn.args.args + fn.args.kwonlyargs}
    dn = [n for n in g.nodes if n.ast is asg]
    if len(dn) != 1:
        return False
    d = dn[0]
    load_ids = {id(x) for x in loads}
    use_nodes = {n.id for n in g.nodes if any(id(x) in load_ids for x in g.walk_node(n))}
    if not use_nodes:
        return False
    # the binding must dominate every use
    without = g.reachable(g.entry.id, removed_nodes=[d.id])
    if use_nodes & without:
        return False
    # walk forward from the binding; a node that may change what e reads "kills" the binding for everything after it
    seen, stack = set(), [b for b, _ in g.succ.get(d.id, [])]
    while stack:
        i = stack.pop()
        if i in seen or i == d.id:
            continue
        seen.add(i)
        n = g.nodes[i]
        kills = False
        for x in g.walk_node(n):
            if isinstance(x, ast.Name) and isinstance(x.ctx, (ast.Store, ast.Del)) and x.id in names:
                kills = True
            elif attrs and isinstance(x, ast.Call) and not (isinstance(x.func, ast.Name) and
                                                            (x.func.id in PURE_CALLS | ITER_CALLS or
                                                             (x.func.id in _PURE_FUNCS and x.func.id not in local_names))):
                kills = True
            elif attrs and isinstance(x, ast.Attribute) and isinstance(x.ctx, (ast.Store, ast.Del)):
                # a store to attribute .a changes what e reads only if e reads an attribute of that name
                if x.attr in attr_read:
                    kills = True
            elif attrs and isinstance(x, ast.Subscript) and isinstance(x.ctx, (ast.Store, ast.Del)):
                if sub_read:
                    kills = True
            elif isinstance(x, (ast.Yield, ast.YieldFrom)) and attrs:
                kills = True
        if kills:
            # uses at this very node are evaluated before/with the kill only for plain stores; be conservative
            after = g.reachable([b for b, _ in g.succ.get(i, [])], removed_nodes=[d.id]) if g.succ.get(i) else set()
            if (use_nodes & after) or (i in use_nodes and attrs and _call_before_load(g.node_exprs(n), load_ids)):
                return False
            continue
        stack.extend(b for b, _ in g.succ.get(i, []))
    return True


def _replace_loads(fn, v, e, roots=None):
    class R(ast.NodeTransformer):
        def visit_Name(self, n):
            if n.id == v and isinstance(n.ctx, ast.Load):
                return ast.copy_location(clone(e), n)
            return n

        def visit_FunctionDef(self, n):
            return n
    r = R()
    if roots is not None:
        for x in roots:
            for fld, val in ast.iter_fields(x):
                if isinstance(val, ast.AST):
                    setattr(x, fld, r.visit(val))
                elif isinstance(val, list):
                    setattr(x, fld, [r.visit(y) if isinstance(y, ast.AST) else y for y in val])
        return
    fn.body[:] = [r.visit(s) for s in fn.body]
