"""N3 / N4 of the normal form (see sa/normalize.py): undo the two most common behaviour-preserving clean-ups so that the
rules see the function in the shape they were confirmed on.

N3  inline *new* helpers.  A function or method that does not exist in the reference table (sa/reference.json) and whose
    name is not a method/function name known anywhere in the reference is a helper somebody extracted.  Its calls from the
    same class (self.h(..), Cls.h(..)) or module (h(..)) are expanded in place when the expansion is exact:
      - the helper is a plain function (no generator, no nested defs, no *args/**kw, not recursive);
      - the call is a whole statement (`h(..)`), the value of an assignment or return, or an if-test (optionally negated);
        a helper that is a single `return <expr>` is also expanded inside larger expressions;
      - every `return` of the helper can be replaced by the caller's continuation: a return in tail position by
        "assign / fall through", any other return only when the continuation ends in a jump (return/raise/continue/break);
      - parameters bound to plain names or constants are substituted, anything else is bound to a temporary first;
      - helper locals are renamed apart unless the caller's variable of the same name is dead at the call.
    A helper that cannot be expanded exactly is left alone (the rule then reports or fails closed as before).
N4  forward-substitute *new* temporaries: a local that is absent from the reference function, bound once to a side-effect
    free expression, is replaced by that expression at its uses when no path from the binding to a use can change what the
    expression reads (no store to a name it reads; no call or attribute/subscript store at all if it reads attributes).
    `v = <call>` used once as the test/value of the very next statement is substituted too.
Both are exact program equivalences, so a verdict on the rewritten function is a verdict on the function as written.
"""
import ast
import copy


def clone(node):
    """structural copy of an AST (fields and positions only: no private attributes, singletons shared)"""
    if isinstance(node, list):
        return [clone(x) for x in node]
    if not isinstance(node, ast.AST):
        return node
    if isinstance(node, (ast.expr_context, ast.operator, ast.cmpop, ast.boolop, ast.unaryop)):
        return node
    new = type(node)()
    for f in node._fields:
        if hasattr(node, f):
            setattr(new, f, clone(getattr(node, f)))
    for a in ("lineno", "col_offset", "end_lineno", "end_col_offset"):
        if hasattr(node, a):
            setattr(new, a, getattr(node, a))
    return new

PURE_CALLS = {"len", "abs", "isinstance", "min", "max", "int", "float", "bool", "str"}
ITER_CALLS = {"any", "all", "sum", "sorted", "list", "tuple", "set", "enumerate", "zip", "reversed", "range", "iter", "next"}   # consume iterables, mutate nothing of ours
JUMPS = (ast.Return, ast.Raise, ast.Continue, ast.Break)


class Fail(Exception):
    pass


def _own(fn_or_stmts):
    """nodes of a function body / statement list without nested defs"""
    stack = list(fn_or_stmts.body) if isinstance(fn_or_stmts, (ast.FunctionDef, ast.AsyncFunctionDef)) else list(fn_or_stmts)
    while stack:
        n = stack.pop()
        yield n
        if isinstance(n, (ast.FunctionDef, ast.AsyncFunctionDef, ast.Lambda, ast.ClassDef)):
            continue
        stack.extend(ast.iter_child_nodes(n))


def _is_simple_arg(e):
    return isinstance(e, (ast.Name, ast.Constant))


def _ends_in_jump(stmts):
    if not stmts:
        return False
    s = stmts[-1]
    if isinstance(s, JUMPS):
        return True
    if isinstance(s, ast.If):
        return bool(s.orelse) and _ends_in_jump(s.body) and _ends_in_jump(s.orelse)
    return False


def _strip_doc(body):
    if body and isinstance(body[0], ast.Expr) and isinstance(body[0].value, ast.Constant) and isinstance(body[0].value.value, str):
        return body[1:]
    return body


class Helper:
    def __init__(self, fn, owner, static):
        self.fn, self.owner, self.static = fn, owner, static
        self.body = _strip_doc(fn.body)
        a = fn.args
        self.params = [x.arg for x in a.posonlyargs + a.args]
        self.kwonly = [x.arg for x in a.kwonlyargs]
        nd = len(a.defaults)
        self.defaults = dict(zip(self.params[len(self.params) - nd:], a.defaults)) if nd else {}
        for k, d in zip(self.kwonly, a.kw_defaults):
            if d is not None:
                self.defaults[k] = d
        self.is_method = owner is not None and not static

    @staticmethod
    def eligible(fn):
        if isinstance(fn, ast.AsyncFunctionDef) or fn.args.vararg or fn.args.kwarg:
            return False
        for d in fn.decorator_list:
            if not (isinstance(d, ast.Name) and d.id == "staticmethod"):
                return False
        if fn.name.startswith("__") and fn.name.endswith("__"):
            return False
        for n in _own(fn):
            if isinstance(n, (ast.Yield, ast.YieldFrom, ast.Await, ast.FunctionDef, ast.AsyncFunctionDef, ast.Lambda, ast.ClassDef,
                              ast.Global, ast.Nonlocal, ast.Try, ast.With)):
                # try/with around a return changes what the return means; keep the analysis exact by not expanding
                if isinstance(n, (ast.Try, ast.With)) and not any(isinstance(x, ast.Return) for x in ast.walk(n)):
                    continue
                return False
            if isinstance(n, ast.Call):
                f = n.func
                if (isinstance(f, ast.Name) and f.id == fn.name) or (isinstance(f, ast.Attribute) and f.attr == fn.name):
                    return False        # recursive
                if isinstance(f, ast.Name) and f.id in ("locals", "vars", "super", "eval", "exec"):
                    return False
        for d in list(fn.args.defaults) + [d for d in fn.args.kw_defaults if d is not None]:
            if not isinstance(d, (ast.Constant, ast.List, ast.Dict, ast.Tuple, ast.Name, ast.Attribute)):
                return False
        return True


class _Subst(ast.NodeTransformer):
    def __init__(self, exprs, renames):
        self.exprs, self.renames = exprs, renames

    def visit_Name(self, n):
        if n.id in self.exprs and isinstance(n.ctx, ast.Load):
            return ast.copy_location(clone(self.exprs[n.id]), n)
        if n.id in self.renames:
            n.id = self.renames[n.id]
        return n

    def visit_ExceptHandler(self, n):
        if n.name in self.renames:
            n.name = self.renames[n.name]
        self.generic_visit(n)
        return n


def _names_used(fn):
    used = set()
    for n in _own(fn):
        if isinstance(n, ast.Name):
            used.add(n.id)
        elif isinstance(n, ast.ExceptHandler) and n.name:
            used.add(n.name)
    a = fn.args
    for x in a.posonlyargs + a.args + a.kwonlyargs:
        used.add(x.arg)
    if a.vararg:
        used.add(a.vararg.arg)
    if a.kwarg:
        used.add(a.kwarg.arg)
    return used


def _stored(stmts):
    out = set()
    for n in _own(stmts):
        if isinstance(n, ast.Name) and isinstance(n.ctx, (ast.Store, ast.Del)):
            out.add(n.id)
        elif isinstance(n, ast.ExceptHandler) and n.name:
            out.add(n.name)
    return out


def _bind(helper, call, caller, at_stmt):
    """-> (prelude statements, {param: expr} substitutions, {local: new name}) or raise Fail"""
    args = list(call.args)
    if any(isinstance(a, ast.Starred) for a in args) or any(k.arg is None for k in call.keywords):
        raise Fail("star args")
    params = list(helper.params)
    subst = {}
    if helper.is_method:
        if not params:
            raise Fail("no self")
        recv = call.func.value if isinstance(call.func, ast.Attribute) else None
        if not isinstance(recv, ast.Name):
            raise Fail("receiver")
        subst[params[0]] = recv
        params = params[1:]
    if len(args) > len(params):
        raise Fail("too many args")
    given = dict(zip(params, args))
    for k in call.keywords:
        if k.arg in given or k.arg not in params + helper.kwonly:
            raise Fail("keyword")
        given[k.arg] = k.value
    for p in params + helper.kwonly:
        if p not in given:
            if p not in helper.defaults:
                raise Fail("missing arg")
            if not isinstance(helper.defaults[p], ast.Constant):
                raise Fail("mutable / computed default would be needed")
            given[p] = helper.defaults[p]
    stored = _stored(helper.body)
    used = _names_used(caller)
    prelude, renames = [], {}
    for p in params + helper.kwonly:
        e = given[p]
        if _is_simple_arg(e) and p not in stored and not (isinstance(e, ast.Name) and e.id in stored):
            subst[p] = e
        else:
            name = p
            while name in used and not (isinstance(e, ast.Name) and e.id == name):
                name += "_h"
            used.add(name)
            if name != p:
                renames[p] = name
            if not (isinstance(e, ast.Name) and e.id == name):
                prelude.append(ast.copy_location(ast.Assign(targets=[ast.Name(id=name, ctx=ast.Store())], value=clone(e)), at_stmt))
    sub_names = {p for p in subst}
    own_targets = set()
    if isinstance(at_stmt, ast.Assign):      # `v, w = helper(..)`: the caller's v, w are overwritten by this very statement
        for t in at_stmt.targets:
            own_targets |= {x.id for x in ast.walk(t) if isinstance(x, ast.Name) and isinstance(x.ctx, ast.Store)}
    for v in sorted(stored - set(helper.params) - set(helper.kwonly)):
        if v in used and v not in own_targets and _live_after(caller, at_stmt, v):
            name = v + "_h"
            while name in used:
                name += "h"
            renames[v] = name
            used.add(name)
    # a substituted caller name must not be captured by a helper local of the same name
    for p, e in subst.items():
        if isinstance(e, ast.Name) and e.id in stored and e.id not in renames:
            raise Fail("capture")
    return prelude, subst, renames


def _live_after(caller, stmt, v):
    """may the caller read its variable v after statement stmt (before writing it again)?  conservative (True when unsure)"""
    try:
        from .cfg import CFG
        g = CFG(caller)
    except Exception:
        return True
    starts = [n for n in g.nodes if n.ast is stmt or (getattr(n.ast, "test", None) is not None and n.ast is stmt)]
    if not starts:
        return True
    seen, stack = set(), []
    for s in starts:
        stack.extend(b for b, _ in g.succ.get(s.id, []))
    while stack:
        i = stack.pop()
        if i in seen:
            continue
        seen.add(i)
        n = g.nodes[i]
        loads = stores = False
        for x in g.walk_node(n):
            if isinstance(x, ast.Name) and x.id == v:
                if isinstance(x.ctx, ast.Load):
                    loads = True
                else:
                    stores = True
            elif isinstance(x, ast.ExceptHandler) and x.name == v:
                stores = True
        if n.kind == "except" and getattr(n.ast, "name", None) == v:
            stores = True
        if loads:
            return True
        if stores:
            continue
        stack.extend(b for b, _ in g.succ.get(i, []))
    return False


def _nest(stmts):
    """`if c: ...return` followed by more statements  ->  if c: ... else: <rest>   (so every return is in tail position
    unless it sits in a loop)"""
    out = []
    for i, s in enumerate(stmts):
        if isinstance(s, ast.If):
            s = ast.copy_location(ast.If(test=s.test, body=_nest(s.body), orelse=_nest(s.orelse)), s)
            rest = stmts[i + 1:]
            if rest and (_has_return(s.body) or _has_return(s.orelse)):
                if _ends_in_jump(s.body) and not s.orelse:
                    s.orelse = _nest(rest)
                    out.append(s)
                    return out
                if s.orelse and _ends_in_jump(s.body) and not _ends_in_jump(s.orelse):
                    s.orelse = _nest(list(s.orelse) + list(rest))
                    out.append(s)
                    return out
                if s.orelse and _ends_in_jump(s.orelse) and not _ends_in_jump(s.body):
                    s.body = _nest(list(s.body) + list(rest))
                    out.append(s)
                    return out
        out.append(s)
    return out


def _has_return(stmts):
    return any(isinstance(n, ast.Return) for n in _own(stmts))


def _truth(e):
    if e is None:
        return False
    if isinstance(e, ast.Constant):
        return bool(e.value)
    return None


def _expand(stmts, cont, tail, in_loop=False):
    """replace every Return in stmts by cont(value, tail_position)"""
    out = []
    for i, s in enumerate(stmts):
        last = tail and i == len(stmts) - 1
        if isinstance(s, ast.Return):
            out.extend(cont(s.value, last and not in_loop, s))
            return out      # statements after a return are dead
        if isinstance(s, ast.If):
            s = ast.copy_location(ast.If(test=s.test, body=_expand(s.body, cont, last, in_loop) or [ast.copy_location(ast.Pass(), s)],
                                         orelse=_expand(s.orelse, cont, last, in_loop)), s)
        elif isinstance(s, (ast.For, ast.While)):
            if _has_return(s.orelse):
                raise Fail("return in loop else")
            s = clone(s)
            s.body = _expand(s.body, cont, False, True) or [ast.copy_location(ast.Pass(), s)]
        elif isinstance(s, (ast.Try, ast.With)) and _has_return([s]):
            raise Fail("return under try/with")
        out.append(s)
    if tail and not in_loop and not _ends_in_jump(stmts):
        # the helper can fall off its end here: implicit `return None` (judged on the helper's own statements: a return
        # that expanded to nothing must not be mistaken for falling through)
        out.extend(cont(None, True, stmts[-1] if stmts else None, implicit=True))
    return out


def _inline_stmt(st, helper, call, caller, mode, extra=None):
    """statements that replace st.  mode: expr | assign | return | if (extra = (negated,))"""
    out = _inline_stmt0(st, helper, call, caller, mode, extra)
    helper.used = getattr(helper, "used", 0) + 1
    return out


def _inline_stmt0(st, helper, call, caller, mode, extra=None):
    prelude, subst, renames = _bind(helper, call, caller, st)
    body = clone(helper.body)
    sub = _Subst(subst, renames)
    body = [sub.visit(b) for b in body]
    body = _nest(body)

    def loc(n):
        return ast.copy_location(n, st)

    if mode == "return":
        def cont(v, tail, at, implicit=False):
            return [loc(ast.Return(value=v))]
    elif mode == "expr":
        def cont(v, tail, at, implicit=False):
            if not tail:
                raise Fail("early return in statement helper")
            if v is None or isinstance(v, (ast.Constant, ast.Name)):
                return []
            return [loc(ast.Expr(value=v))]
    elif mode == "assign":
        def cont(v, tail, at, implicit=False):
            if not tail:
                raise Fail("early return in value helper")
            new = clone(st)
            new.value = v if v is not None else ast.Constant(value=None)
            return [loc(new)]
    elif mode == "if":
        negated = extra
        then, other = (st.orelse, st.body) if negated else (st.body, st.orelse)   # then: helper returned truthy
        t_term, o_term = _ends_in_jump(then), _ends_in_jump(other)

        def cont(v, tail, at, implicit=False):
            tv = _truth(v)
            if tv is None:
                if not tail and not (t_term and o_term):
                    raise Fail("non-constant early return")
                n = ast.If(test=v, body=clone(then) or [ast.Pass()], orelse=clone(other))
                return [ast.fix_missing_locations(loc(n))]
            arm, term = (then, t_term) if tv else (other, o_term)
            if not tail and not term:
                raise Fail("early return needs a jumping continuation")
            return clone(arm)
    else:
        raise Fail(mode)
    new = _expand(body, cont, True)
    return prelude + new


def _self_assign(st):
    """`x = x` / `x, y = (x, y)`: left over when a helper's locals coincide with the variables its result is assigned to"""
    if isinstance(st, ast.Assign) and len(st.targets) == 1:
        t, v = st.targets[0], st.value
        if isinstance(t, ast.Name) and isinstance(v, ast.Name) and t.id == v.id:
            return True
        if isinstance(t, (ast.Tuple, ast.List)) and isinstance(v, (ast.Tuple, ast.List)) and len(t.elts) == len(v.elts) and \
                all(isinstance(a, ast.Name) and isinstance(b, ast.Name) and a.id == b.id for a, b in zip(t.elts, v.elts)):
            return True
    return False


def _call_of(e, helpers, cls):
    """helper called by expression e (a Call), resolved for a caller in class cls, or None"""
    if not isinstance(e, ast.Call):
        return None
    f = e.func
    if isinstance(f, ast.Name):
        return helpers.get((None, f.id))
    if isinstance(f, ast.Attribute) and isinstance(f.value, ast.Name) and cls is not None:
        if f.value.id in ("self", "cls") or f.value.id == cls:
            # the class itself, then its bases defined in this module (a helper extracted into the common base class)
            seen, todo = set(), [cls]
            while todo:
                c = todo.pop(0)
                if c in seen:
                    continue
                seen.add(c)
                h = helpers.get((c, f.attr))
                if h is not None:
                    return h
                todo.extend(helpers.get("__bases__", {}).get(c, []))
        elif (f.value.id, f.attr) in helpers and helpers[(f.value.id, f.attr)].static:
            return helpers[(f.value.id, f.attr)]
    return None


class _ExprInliner(ast.NodeTransformer):
    """single-expression helpers inside larger expressions"""

    def __init__(self, helpers, cls, caller):
        self.helpers, self.cls, self.caller, self.hit = helpers, cls, caller, 0

    def visit_Call(self, n):
        self.generic_visit(n)
        h = _call_of(n, self.helpers, self.cls)
        if h is None or len(h.body) != 1 or not isinstance(h.body[0], ast.Return) or h.body[0].value is None:
            return n
        try:
            prelude, subst, renames = _bind(h, n, self.caller, n)
        except Fail:
            return n
        if prelude or renames:
            return n
        self.hit += 1
        h.used = getattr(h, "used", 0) + 1
        return ast.copy_location(_Subst(subst, {}).visit(clone(h.body[0].value)), n)


def _calls_in_eval_order(e):
    """Call nodes of expression e in the order their calls complete (callee and arguments before the call itself)"""
    out = []

    def rec(n):
        if isinstance(n, (ast.Lambda, ast.GeneratorExp, ast.ListComp, ast.SetComp, ast.DictComp, ast.IfExp, ast.BoolOp)):
            out.append(None)        # conditional / deferred evaluation: nothing behind this point may be hoisted
            return
        for c in ast.iter_child_nodes(n):
            rec(c)
        if isinstance(n, ast.Call):
            out.append(n)
    rec(e)
    return out


class _ReplaceNode(ast.NodeTransformer):
    def __init__(self, old, new):
        self.old, self.new = old, new

    def visit(self, n):
        if n is self.old:
            return self.new
        return self.generic_visit(n)


def _hoist(st, helpers, cls, caller, stats):
    """`stmt(... helper(args) ...)` with a multi-statement new helper called inside a larger expression ->
    `_hN = helper(args); stmt(... _hN ...)` when the helper call is the first call the statement evaluates (super() aside),
    so that the assign form of the inliner applies.  Returns [assign, stmt] or None."""
    if not isinstance(st, (ast.Expr, ast.Assign, ast.Return, ast.AugAssign)) or getattr(st, "value", None) is None:
        return None
    for c in _calls_in_eval_order(st.value):
        if c is None:
            return None
        if isinstance(c.func, ast.Name) and c.func.id == "super":
            continue
        h = _call_of(c, helpers, cls)
        if h is None or c is st.value:
            return None
        if len(h.body) == 1 and isinstance(h.body[0], ast.Return):
            return None             # single expression helper: the expression inliner's business
        k = stats["hoisted"] = stats.get("hoisted", 0) + 1
        tmp = "_h%d" % k
        asg = ast.copy_location(ast.Assign(targets=[ast.Name(id=tmp, ctx=ast.Store())], value=c), st)
        st.value = _ReplaceNode(c, ast.copy_location(ast.Name(id=tmp, ctx=ast.Load()), c)).visit(st.value)
        ast.fix_missing_locations(asg)
        return [asg, st]
    return None


def _rewrite_block(stmts, helpers, cls, caller, stats):
    out = []
    todo = list(stmts)
    while todo:
        st = todo.pop(0)
        hs = _hoist(st, helpers, cls, caller, stats)
        if hs is not None:
            todo[0:0] = hs
            continue
        for fld in ("body", "orelse", "finalbody"):
            if isinstance(getattr(st, fld, None), list) and not isinstance(st, (ast.FunctionDef, ast.AsyncFunctionDef, ast.ClassDef)):
                setattr(st, fld, _rewrite_block(getattr(st, fld), helpers, cls, caller, stats))
        if isinstance(st, ast.Try):
            for h in st.handlers:
                h.body = _rewrite_block(h.body, helpers, cls, caller, stats)
        rep = None
        try:
            if isinstance(st, ast.Expr) and _call_of(st.value, helpers, cls):
                rep = _inline_stmt(st, _call_of(st.value, helpers, cls), st.value, caller, "expr")
            elif isinstance(st, ast.Assign) and _call_of(st.value, helpers, cls):
                rep = _inline_stmt(st, _call_of(st.value, helpers, cls), st.value, caller, "assign")
            elif isinstance(st, ast.Return) and st.value is not None and _call_of(st.value, helpers, cls):
                rep = _inline_stmt(st, _call_of(st.value, helpers, cls), st.value, caller, "return")
            elif isinstance(st, ast.If):
                t, neg = st.test, False
                if isinstance(t, ast.UnaryOp) and isinstance(t.op, ast.Not):
                    t, neg = t.operand, True
                if _call_of(t, helpers, cls):
                    rep = _inline_stmt(st, _call_of(t, helpers, cls), t, caller, "if", neg)
        except Fail as ex:
            stats.setdefault("failed", []).append(str(ex))
            rep = None
        if rep is not None:
            rep = [r for r in rep if not _self_assign(r)]
            stats["inlined"] = stats.get("inlined", 0) + 1
            rep = _rewrite_block(rep, helpers, cls, caller, stats) if stats.get("depth", 0) < 3 else rep
            out.extend(rep or [ast.copy_location(ast.Pass(), st)])
        else:
            out.append(st)
    return out or stmts


def inline_new_helpers(tree, ref_mod, known_names):
    """ref_mod: {qualname: ...} of this module in the reference; known_names: every function/method name in the reference"""
    helpers = {}

    def collect(body, cls):
        for n in body:
            if isinstance(n, ast.FunctionDef):
                q = (cls + "." if cls else "") + n.name
                if q not in ref_mod and n.name not in known_names and Helper.eligible(n):
                    static = any(isinstance(d, ast.Name) and d.id == "staticmethod" for d in n.decorator_list)
                    helpers[(cls, n.name)] = Helper(n, cls, static)
            elif isinstance(n, ast.ClassDef) and cls is None:
                bases.setdefault(n.name, [b.id for b in n.bases if isinstance(b, ast.Name)])
                collect(n.body, n.name)
    bases = {}
    collect(tree.body, None)
    stats = {"helpers": sorted("%s.%s" % (c, f) if c else f for c, f in helpers)}
    if not helpers:
        return stats
    # a helper that a subclass in this module overrides is polymorphic: leave it alone
    for (c, f) in list(helpers):
        if c is None:
            continue
        for n in tree.body:
            if isinstance(n, ast.ClassDef) and n.name != c and any(isinstance(m, ast.FunctionDef) and m.name == f for m in n.body):
                helpers.pop((c, f), None)
    helpers["__bases__"] = bases

    def visit(body, cls):
        for n in body:
            if isinstance(n, ast.FunctionDef):
                for _ in range(3):      # helpers calling helpers
                    before = stats.get("inlined", 0)
                    n.body = _rewrite_block(n.body, helpers, cls, n, stats)
                    ei = _ExprInliner(helpers, cls, n)
                    n.body = [ei.visit(s) for s in n.body]
                    stats["inlined"] = stats.get("inlined", 0) + ei.hit
                    if stats.get("inlined", 0) == before:
                        break
            elif isinstance(n, ast.ClassDef) and cls is None:
                visit(n.body, n.name)
    visit(tree.body, None)
    # a helper with no call left in the module has been folded into its callers: the copy that remains is dead as far as this
    # module is concerned; who-may-write rules attribute its effects to the callers (the expanded copies), not to it
    bases = helpers.pop("__bases__", {})
    remaining = {}
    for n in ast.walk(tree):
        if isinstance(n, ast.Call):
            f = n.func
            nm = f.id if isinstance(f, ast.Name) else f.attr if isinstance(f, ast.Attribute) else None
            if nm:
                remaining[nm] = remaining.get(nm, 0) + 1
        elif isinstance(n, ast.Attribute) and isinstance(n.ctx, ast.Load):
            pass
    for (c, f), h in helpers.items():
        if remaining.get(f, 0) == 0 and getattr(h, "used", 0) > 0:      # expanded somewhere here and called nowhere any more
            h.fn._folded = True
    stats["folded"] = sorted(f for (c, f), h in helpers.items() if getattr(h.fn, "_folded", False))
    # ... and is removed from the tree, so that who-may-call / who-may-write / sibling rules see the program as it was
    # before the extraction (a caller in another module would become an unresolved call: silent, or a D3 report)
    gone = {id(h.fn) for h in helpers.values() if getattr(h.fn, "_folded", False)}
    if gone:
        for holder in [tree] + [n for n in tree.body if isinstance(n, ast.ClassDef)]:
            holder.body = [n for n in holder.body if id(n) not in gone] or [ast.Pass()]
    ast.fix_missing_locations(tree)
    return stats


# ------------------------------------------------------------------------------------------------ N4
def _reads(e):
    names, attrs = set(), False
    for n in ast.walk(e):
        if isinstance(n, ast.Name):
            names.add(n.id)
        elif isinstance(n, (ast.Attribute, ast.Subscript)):
            attrs = True
    return names, attrs


def _pure(e):
    for n in ast.walk(e):
        if isinstance(n, (ast.Yield, ast.YieldFrom, ast.Await, ast.NamedExpr, ast.Lambda, ast.ListComp, ast.SetComp,
                          ast.DictComp, ast.GeneratorExp, ast.List, ast.Dict, ast.Set, ast.JoinedStr, ast.Starred)):
            return False        # a display builds a new (mutable) object at every evaluation: identity matters
        if isinstance(n, ast.Call) and not (isinstance(n.func, ast.Name) and n.func.id in PURE_CALLS):
            return False
    return True


def substitute_new_temps(fn, ref_locals):
    """N4 on one function; returns the list of substituted names"""
    from .normalize import scope_info
    info = scope_info(fn)
    if info is None:
        return []
    params, locs, _ = info
    refn = {r[0] for r in ref_locals}
    new = [v for v in locs if v not in refn]
    if not new:
        return []
    done = []
    for v in new:
        stores = [n for n in _own(fn) if isinstance(n, ast.Name) and n.id == v and isinstance(n.ctx, (ast.Store, ast.Del))]
        loads = [n for n in _own(fn) if isinstance(n, ast.Name) and n.id == v and isinstance(n.ctx, ast.Load)]
        if len(stores) != 1 or not loads:
            continue
        d = _find_assign(fn.body, stores[0])
        if d is None:
            continue
        block, idx, asg = d
        e = asg.value
        if _pure(e):
            if _safe_everywhere(fn, asg, v, e, loads):
                _replace_loads(fn, v, e)
                del block[idx]
                if not block:
                    block.append(ast.copy_location(ast.Pass(), asg))
                done.append(v)
        elif len(loads) == 1 and idx + 1 < len(block):
            nxt = block[idx + 1]
            tgt = None
            if isinstance(nxt, (ast.If, ast.While)):
                tgt = nxt.test
            elif isinstance(nxt, (ast.Return, ast.Assign, ast.Expr)) and nxt.value is not None:
                tgt = nxt.value
            t = tgt
            if isinstance(t, ast.UnaryOp) and isinstance(t.op, ast.Not):
                t = t.operand
            if t is loads[0] and not isinstance(nxt, ast.While):
                _replace_loads(nxt, v, e, roots=[nxt])
                del block[idx]
                done.append(v)
    return done


def _find_assign(body, store):
    for i, s in enumerate(body):
        if isinstance(s, ast.Assign) and len(s.targets) == 1 and s.targets[0] is store:
            return body, i, s
        for fld in ("body", "orelse", "finalbody"):
            sub = getattr(s, fld, None)
            if isinstance(sub, list) and not isinstance(s, (ast.FunctionDef, ast.AsyncFunctionDef, ast.ClassDef)):
                r = _find_assign(sub, store)
                if r:
                    return r
        if isinstance(s, ast.Try):
            for h in s.handlers:
                r = _find_assign(h.body, store)
                if r:
                    return r
    return None


def _try_context(fn, target):
    """chain of (Try node id, part) enclosing `target` inside fn: substituting an expression across a try boundary would
    move where its exceptions are (or are not) caught"""
    path = []

    def rec(node, ctx):
        if node is target:
            path.append(tuple(ctx))
            return True
        for fld, val in ast.iter_fields(node):
            items = val if isinstance(val, list) else [val]
            for it in items:
                if isinstance(it, ast.AST):
                    c2 = ctx
                    if isinstance(node, ast.Try) and fld in ("body", "orelse", "finalbody", "handlers"):
                        c2 = ctx + [(id(node), fld if fld != "handlers" else "h%d" % node.handlers.index(it))]
                    if isinstance(it, (ast.FunctionDef, ast.AsyncFunctionDef, ast.Lambda, ast.ClassDef)):
                        continue
                    if rec(it, c2):
                        return True
        return False
    rec(fn, [])
    return path[0] if path else None


def _call_before_load(roots, load_ids):
    """is some (non-pure) call completed before one of the loads is evaluated, in left-to-right evaluation order?"""
    seq = []

    def post(n):
        if isinstance(n, (ast.FunctionDef, ast.AsyncFunctionDef, ast.Lambda, ast.ClassDef)):
            return
        if isinstance(n, ast.Assign):         # value first, then targets
            post(n.value)
            for t in n.targets:
                post(t)
            return
        if isinstance(n, ast.AugAssign):
            post(n.target)
            post(n.value)
            seq.append(n)
            return
        for c in ast.iter_child_nodes(n):
            post(c)
        seq.append(n)
    for r in roots:
        if r is not None:
            post(r)
    called = False
    for n in seq:
        if isinstance(n, ast.Name) and id(n) in load_ids and called:
            return True
        if isinstance(n, ast.Call) and not (isinstance(n.func, ast.Name) and n.func.id in PURE_CALLS | ITER_CALLS):
            called = True
        if isinstance(n, (ast.Attribute, ast.Subscript)) and isinstance(n.ctx, (ast.Store, ast.Del)):
            called = True
    return False


def _may_raise(e):
    """exception class names evaluating e may raise (set), or None for 'anything'"""
    out = set()
    for n in ast.walk(e):
        if isinstance(n, (ast.Name, ast.Constant, ast.Load, ast.expr_context)):
            continue
        if isinstance(n, ast.Attribute):
            out.add("AttributeError")
            continue
        return None
    return out


def _handler_names(h):
    if h.type is None:
        return None
    elts = h.type.elts if isinstance(h.type, ast.Tuple) else [h.type]
    out = set()
    for x in elts:
        if isinstance(x, ast.Name):
            out.add(x.id)
        elif isinstance(x, ast.Attribute):
            out.add(x.attr)
        else:
            return None
    return out


def _safe_everywhere(fn, asg, v, e, loads):
    from .cfg import CFG
    base = _try_context(fn, asg)
    raises = _may_raise(e)
    tries = {id(t): t for t in ast.walk(fn) if isinstance(t, ast.Try)}
    for ld in loads:
        ctx = _try_context(fn, ld)
        if ctx != base:
            # the expression would be evaluated under different handlers: fine only if none of the handlers that differ can
            # catch what it may raise
            if raises is None:
                return False
            diff = set(base or ()) ^ set(ctx or ())
            for tid, part in diff:
                if part != "body":
                    continue
                for h in tries[tid].handlers:
                    names = _handler_names(h)
                    if names is None or names & (raises | {"Exception", "BaseException"}):
                        return False
    try:
        g = CFG(fn)
    except Exception:
        return False
    names, attrs = _reads(e)
    dn = [n for n in g.nodes if n.ast is asg]
    if len(dn) != 1:
        return False
    d = dn[0]
    load_ids = {id(x) for x in loads}
    use_nodes = {n.id for n in g.nodes if any(id(x) in load_ids for x in g.walk_node(n))}
    if not use_nodes:
        return False
    # the binding must dominate every use
    without = g.reachable(g.entry.id, removed_nodes=[d.id])
    if use_nodes & without:
        return False
    # walk forward from the binding; a node that may change what e reads "kills" the binding for everything after it
    seen, stack = set(), [b for b, _ in g.succ.get(d.id, [])]
    while stack:
        i = stack.pop()
        if i in seen or i == d.id:
            continue
        seen.add(i)
        n = g.nodes[i]
        kills = False
        for x in g.walk_node(n):
            if isinstance(x, ast.Name) and isinstance(x.ctx, (ast.Store, ast.Del)) and x.id in names:
                kills = True
            elif attrs and isinstance(x, ast.Call) and not (isinstance(x.func, ast.Name) and x.func.id in PURE_CALLS | ITER_CALLS):
                kills = True
            elif attrs and isinstance(x, (ast.Attribute, ast.Subscript)) and isinstance(x.ctx, (ast.Store, ast.Del)):
                kills = True
            elif isinstance(x, (ast.Yield, ast.YieldFrom)) and attrs:
                kills = True
        if kills:
            # uses at this very node are evaluated before/with the kill only for plain stores; be conservative
            after = g.reachable([b for b, _ in g.succ.get(i, [])], removed_nodes=[d.id]) if g.succ.get(i) else set()
            if (use_nodes & after) or (i in use_nodes and attrs and _call_before_load(g.node_exprs(n), load_ids)):
                return False
            continue
        stack.extend(b for b, _ in g.succ.get(i, []))
    return True


def _replace_loads(fn, v, e, roots=None):
    class R(ast.NodeTransformer):
        def visit_Name(self, n):
            if n.id == v and isinstance(n.ctx, ast.Load):
                return ast.copy_location(clone(e), n)
            return n

        def visit_FunctionDef(self, n):
            return n
    r = R()
    if roots is not None:
        for x in roots:
            for fld, val in ast.iter_fields(x):
                if isinstance(val, ast.AST):
                    setattr(x, fld, r.visit(val))
                elif isinstance(val, list):
                    setattr(x, fld, [r.visit(y) if isinstance(y, ast.AST) else y for y in val])
        return
    fn.body[:] = [r.visit(s) for s in fn.body]
