"""Program model of /repo/ioflo built from source text only (ast); nothing is imported.

Repo          - all modules (disk or in-memory overlay), parent links, digests
Module.ns     - top-level namespace with resolved imports (star imports and the
                importlib.import_module loops of the package __init__ files expanded)
ClassInfo     - bases resolved through namespaces, MRO, methods, instance attributes,
                subclasses
Anchors are located by (module, class, function) names; a missing anchor raises
AnchorError which the driver turns into exit code 2 (never a pass).
"""
import ast
import builtins
import hashlib
import os
import sys
import sysconfig

REPO_ROOT = os.environ.get("SA_REPO_ROOT", "/repo")
PKG = "ioflo"


class AnchorError(Exception):
    """an anchor (module/class/function/call) a rule is tied to cannot be located"""


class Binding:
    __slots__ = ("kind", "target", "node", "module")

    def __init__(self, kind, target=None, node=None, module=None):
        self.kind = kind      # module | extmodule | class | func | var | ext | unknown
        self.target = target  # module name / ClassInfo / dotted external name
        self.node = node
        self.module = module  # defining Module for class/func/var

    def __repr__(self):
        return "<%s %s>" % (self.kind, self.target if self.kind != "class" else self.target.qual)


_SINGLETONS = (ast.expr_context, ast.operator, ast.cmpop, ast.boolop, ast.unaryop)   # shared between all parsed trees


def set_parents(tree):
    for node in ast.walk(tree):
        for child in ast.iter_child_nodes(node):
            if not isinstance(child, _SINGLETONS):
                child._parent = node
    tree._parent = None


def parent(node):
    return getattr(node, "_parent", None)


def enclosing(node, kinds):
    p = parent(node)
    while p is not None and not isinstance(p, kinds):
        p = parent(p)
    return p


def enclosing_func(node):
    return enclosing(node, (ast.FunctionDef, ast.AsyncFunctionDef, ast.Lambda))


def enclosing_class(node):
    p = parent(node)
    while p is not None:
        if isinstance(p, ast.ClassDef):
            return p
        p = parent(p)
    return None


def dotted(node):
    """'a.b.c' for Name/Attribute chains, else None"""
    parts = []
    while isinstance(node, ast.Attribute):
        parts.append(node.attr)
        node = node.value
    if isinstance(node, ast.Name):
        parts.append(node.id)
        return ".".join(reversed(parts))
    return None


def call_name(call):
    """dotted name of a call's callee or None"""
    return dotted(call.func) if isinstance(call, ast.Call) else None


def last_attr(call):
    f = call.func
    if isinstance(f, ast.Attribute):
        return f.attr
    if isinstance(f, ast.Name):
        return f.id
    return None


_U_PREFIX = None


def src(node):
    """normalised source text of a node (ast.unparse; the py2-compat u'' string prefix is dropped)"""
    global _U_PREFIX
    try:
        t = ast.unparse(node)
    except Exception:
        return "<%s>" % type(node).__name__
    if "u'" in t or 'u"' in t:
        if _U_PREFIX is None:
            import re
            _U_PREFIX = re.compile(r"(?<![A-Za-z0-9_])u(?=['\"])")
        t = _U_PREFIX.sub("", t)
    return t


def const_str(node):
    """value of a string literal expression incl. implicit/'+' concatenation; else None"""
    if isinstance(node, ast.Constant) and isinstance(node.value, str):
        return node.value
    if isinstance(node, ast.BinOp) and isinstance(node.op, ast.Add):
        a, b = const_str(node.left), const_str(node.right)
        if a is not None and b is not None:
            return a + b
    return None


def walk_no_nested(node, include_self=False):
    """walk a function/class body without descending into nested defs/lambdas/classes"""
    stack = list(ast.iter_child_nodes(node)) if not include_self else [node]
    while stack:
        n = stack.pop()
        yield n
        if isinstance(n, (ast.FunctionDef, ast.AsyncFunctionDef, ast.ClassDef, ast.Lambda)):
            continue
        stack.extend(ast.iter_child_nodes(n))


class Module:
    def __init__(self, repo, name, relpath, source, is_pkg):
        self.repo = repo
        self.name = name
        self.relpath = relpath
        self.source = source
        self.is_pkg = is_pkg
        self.is_test = "/test/" in "/" + relpath or relpath.endswith("/test/__init__.py")
        self.tree = ast.parse(source, filename=relpath)
        if os.environ.get("SA_NO_NORMALIZE") != "1":
            from . import normalize
            self.tree = normalize.normalize(self.tree, relpath, hashlib.sha256(source.encode("utf8", "replace")).hexdigest())
        set_parents(self.tree)
        for n in ast.walk(self.tree):
            if not isinstance(n, _SINGLETONS):
                n._module = self
        self.digest = hashlib.sha256(source.encode("utf8", "replace")).hexdigest()
        self._ns = None
        self._ns_building = False
        self.classes = {}
        self.funcs = {}
        self.import_errors = []  # (node, message) collected while building ns

    @property
    def package(self):
        return self.name if self.is_pkg else self.name.rpartition(".")[0]

    # ---------------------------------------------------------------- namespace
    @property
    def ns(self):
        if self._ns is None:
            self._build_ns()
        return self._ns

    def _abs_from(self, node):
        """absolute module name an ImportFrom refers to"""
        if node.level == 0:
            return node.module
        base = self.package.split(".")
        if node.level > 1:
            base = base[: len(base) - (node.level - 1)]
        if node.module:
            base = base + node.module.split(".")
        return ".".join(base)

    def _build_ns(self):
        if self._ns_building:
            return
        self._ns_building = True
        ns = {}
        self._ns = ns  # visible (partially) to cyclic importers
        self._fill(self.tree.body, ns, guarded=False)
        self._ns_building = False

    def _fill(self, body, ns, guarded):
        repo = self.repo
        for st in body:
            if isinstance(st, ast.Import):
                for a in st.names:
                    top = a.name.split(".")[0]
                    if a.asname:
                        ns[a.asname] = repo.module_binding(a.name)
                    else:
                        ns[top] = repo.module_binding(top)
                    if repo.is_repo_modname(a.name) and a.name not in repo.modules:
                        self.import_errors.append((st, "no module %s" % a.name, guarded))
            elif isinstance(st, ast.ImportFrom):
                if st.module == "__future__":
                    continue
                target = self._abs_from(st)
                if repo.is_repo_modname(target):
                    tm = repo.modules.get(target)
                    if tm is None:
                        self.import_errors.append((st, "no module %s" % target, guarded))
                        for a in st.names:
                            if a.name != "*":
                                ns[a.asname or a.name] = Binding("unknown")
                        continue
                    for a in st.names:
                        if a.name == "*":
                            for k, v in tm.star_exports().items():
                                ns[k] = v
                            continue
                        sub = target + "." + a.name
                        tns = tm.ns
                        if a.name in tns:
                            ns[a.asname or a.name] = tns[a.name]
                        elif sub in repo.modules:
                            ns[a.asname or a.name] = Binding("module", sub)
                        else:
                            if not tm._ns_building:
                                self.import_errors.append(
                                    (st, "cannot import name %s from %s" % (a.name, target), guarded))
                            ns[a.asname or a.name] = Binding("unknown")
                else:
                    for a in st.names:
                        if a.name == "*":
                            for k in repo.stdlib.star(target):
                                ns[k] = Binding("ext", target + "." + k)
                            continue
                        full = target + "." + a.name
                        if repo.stdlib.is_module(full) and not repo.stdlib.binds(target, a.name):
                            ns[a.asname or a.name] = Binding("extmodule", full)
                        else:
                            ns[a.asname or a.name] = Binding("ext", full)
                            ok = repo.stdlib.has_name(target, a.name)
                            if ok is False:
                                self.import_errors.append(
                                    (st, "cannot import name %s from %s" % (a.name, target), guarded))
            elif isinstance(st, ast.ClassDef):
                ci = self.classes.get(st.name)
                if ci is None or ci.node is not st:
                    ci = ClassInfo(self, st)
                    self.classes[st.name] = ci
                ns[st.name] = Binding("class", ci, st, self)
            elif isinstance(st, (ast.FunctionDef, ast.AsyncFunctionDef)):
                self.funcs[st.name] = st
                ns[st.name] = Binding("func", st, st, self)
            elif isinstance(st, (ast.Assign, ast.AnnAssign, ast.AugAssign)):
                targets = st.targets if isinstance(st, ast.Assign) else [st.target]
                for t in targets:
                    for n in ast.walk(t):
                        if isinstance(n, ast.Name):
                            b = None
                            if isinstance(st, ast.Assign) and isinstance(st.value, ast.Name) \
                                    and st.value.id in ns and isinstance(t, ast.Name):
                                b = ns[st.value.id]  # alias
                            ns[n.id] = b or Binding("var", None, st, self)
            elif isinstance(st, (ast.If, ast.While)):
                self._fill(st.body, ns, guarded)
                self._fill(st.orelse, ns, guarded)
            elif isinstance(st, ast.For):
                for n in ast.walk(st.target):
                    if isinstance(n, ast.Name):
                        ns[n.id] = Binding("var", None, st, self)
                self._importlib_loop(st, ns)
                self._fill(st.body, ns, guarded)
                self._fill(st.orelse, ns, guarded)
            elif isinstance(st, ast.Try):
                g = guarded or any(_handles_import_error(h) for h in st.handlers)
                self._fill(st.body, ns, g)
                for h in st.handlers:
                    if h.name:
                        ns[h.name] = Binding("var", None, h, self)
                    self._fill(h.body, ns, guarded)
                self._fill(st.orelse, ns, guarded)
                self._fill(st.finalbody, ns, guarded)
            elif isinstance(st, ast.With):
                for it in st.items:
                    if it.optional_vars is not None:
                        for n in ast.walk(it.optional_vars):
                            if isinstance(n, ast.Name):
                                ns[n.id] = Binding("var", None, st, self)
                self._fill(st.body, ns, guarded)

    def _importlib_loop(self, st, ns):
        """for m in _modules: importlib.import_module(".{0}".format(m), package='x')"""
        if not (isinstance(st.iter, ast.Name) and isinstance(st.target, ast.Name)):
            return
        lst = None
        for s in self.tree.body:
            if isinstance(s, ast.Assign) and any(isinstance(t, ast.Name) and t.id == st.iter.id
                                                 for t in s.targets):
                if isinstance(s.value, (ast.List, ast.Tuple)):
                    lst = [const_str(e) for e in s.value.elts]
        if not lst or None in lst:
            return
        def template(e):
            """module-name expression with the loop variable as \\0, or None"""
            if isinstance(e, ast.Constant) and isinstance(e.value, str):
                return e.value
            if isinstance(e, ast.Name) and e.id == st.target.id:
                return "\0"
            if isinstance(e, ast.BinOp) and isinstance(e.op, ast.Add):
                a, b = template(e.left), template(e.right)
                return a + b if a is not None and b is not None else None
            if isinstance(e, ast.BinOp) and isinstance(e.op, ast.Mod) and isinstance(e.left, ast.Constant) and isinstance(e.left.value, str):
                args = e.right.elts if isinstance(e.right, ast.Tuple) else [e.right]
                if len(args) == 1 and template(args[0]) is not None and e.left.value.count("%s") == 1:
                    return e.left.value.replace("%s", template(args[0]))
                return None
            if isinstance(e, ast.Call) and isinstance(e.func, ast.Attribute) and e.func.attr == "format" and \
                    isinstance(e.func.value, ast.Constant) and isinstance(e.func.value.value, str) and len(e.args) == 1 and not e.keywords:
                t = template(e.args[0])
                f = e.func.value.value
                if t is not None and (f.count("{0}") + f.count("{}")) == 1:
                    return f.replace("{0}", t).replace("{}", t)
                return None
            if isinstance(e, ast.JoinedStr):
                out = ""
                for v in e.values:
                    if isinstance(v, ast.Constant):
                        out += v.value
                    elif isinstance(v, ast.FormattedValue) and v.format_spec is None and v.conversion == -1:
                        t = template(v.value)
                        if t is None:
                            return None
                        out += t
                    else:
                        return None
                return out
            return None

        for n in ast.walk(st):
            if isinstance(n, ast.Call) and call_name(n) in ("importlib.import_module", "import_module"):
                pkg = None
                pe = n.args[1] if len(n.args) > 1 else None
                for kw in n.keywords:
                    if kw.arg == "package":
                        pe = kw.value
                if pe is not None:
                    pkg = const_str(pe)
                    if pkg is None and isinstance(pe, ast.Name) and pe.id == "__name__" and self.is_pkg:
                        pkg = self.name
                    elif pkg is None and isinstance(pe, ast.Name) and pe.id == "__package__":
                        pkg = self.package
                tmpl = template(n.args[0]) if n.args else None
                if tmpl is None or "\0" not in tmpl:
                    continue
                self.dynamic_imports = getattr(self, "dynamic_imports", [])
                for m in lst:
                    name = tmpl.replace("\0", m)
                    if name.startswith("."):
                        if pkg is None:
                            continue
                        dots = len(name) - len(name.lstrip("."))
                        base = pkg.split(".")
                        if dots > 1:
                            base = base[: len(base) - (dots - 1)]
                        full = ".".join(base + [name.lstrip(".")])
                    else:
                        full = name
                    self.dynamic_imports.append((st, full))
                    if full in self.repo.modules:
                        # import_module binds the submodule as attribute of the package
                        if full.rpartition(".")[0] == self.name:
                            ns[m] = Binding("module", full)
                    else:
                        self.import_errors.append((st, "no module %s" % full, False))

    def star_exports(self):
        ns = self.ns
        allv = None
        for st in self.tree.body:
            if isinstance(st, ast.Assign) and any(isinstance(t, ast.Name) and t.id == "__all__"
                                                  for t in st.targets):
                if isinstance(st.value, (ast.List, ast.Tuple)):
                    allv = [const_str(e) for e in st.value.elts]
        if allv is not None and None not in allv:
            return {k: ns[k] for k in allv if k in ns}
        return {k: v for k, v in list(ns.items()) if not k.startswith("_")}


def _handles_import_error(h):
    if h.type is None:
        return True
    names = []
    for n in ast.walk(h.type):
        if isinstance(n, ast.Name):
            names.append(n.id)
    return any(n in ("ImportError", "Exception", "ModuleNotFoundError", "BaseException") for n in names)


class ClassInfo:
    def __init__(self, module, node):
        self.module = module
        self.node = node
        self.name = node.name
        self.qual = module.name + "." + node.name
        self.methods = {}       # name -> FunctionDef
        self.aliases = {}       # name -> other method name (close = shutclose)
        self.class_attrs = {}   # name -> value node
        self.props = set()
        self.statics = set()
        self.classmeths = set()
        self.slots = None
        for st in node.body:
            if isinstance(st, (ast.FunctionDef, ast.AsyncFunctionDef)):
                self.methods[st.name] = st
                for d in st.decorator_list:
                    dn = dotted(d) or ""
                    if dn == "property" or dn.endswith(".setter") or dn.endswith(".getter"):
                        self.props.add(st.name)
                    elif dn == "staticmethod":
                        self.statics.add(st.name)
                    elif dn == "classmethod":
                        self.classmeths.add(st.name)
            elif isinstance(st, ast.Assign):
                for t in st.targets:
                    if isinstance(t, ast.Name):
                        self.class_attrs[t.id] = st.value
                        if isinstance(st.value, ast.Name) and st.value.id in self.methods:
                            self.aliases[t.id] = st.value.id
                        if t.id == "__slots__" and isinstance(st.value, (ast.Tuple, ast.List)):
                            self.slots = [const_str(e) for e in st.value.elts]
                        if isinstance(st.value, ast.Call) and call_name(st.value) == "property":
                            self.props.add(t.id)
            elif isinstance(st, ast.AnnAssign) and isinstance(st.target, ast.Name):
                self.class_attrs[st.target.id] = st.value
        self._bases = None
        self._mro = None
        self._iattrs = None

    def __repr__(self):
        return "<class %s>" % self.qual

    @property
    def bases(self):
        """list of ClassInfo or None (None = unresolved/external base)"""
        if self._bases is None:
            out = []
            for b in self.node.bases:
                out.append(self.module.repo.resolve_class_expr(self.module, b))
            self._bases = out
        return self._bases

    @property
    def base_exprs(self):
        return [src(b) for b in self.node.bases]

    def mro(self):
        """(list of known ClassInfo in MRO order, open) open=True if some base is external"""
        if self._mro is None:
            order, opened, seen = [], False, set()

            def visit(c):
                nonlocal opened
                if c.qual in seen:
                    return
                seen.add(c.qual)
                order.append(c)
                for be, b in zip(c.node.bases, c.bases):
                    if b is None:
                        if dotted(be) != "object":
                            opened = True
                    else:
                        visit(b)
            visit(self)
            c3 = _c3(self)
            if c3 is not None and {c.qual for c in c3} == {c.qual for c in order}:
                order = c3     # real method resolution order (C3); the DFS order is only the fallback
            # external object-only bases are not "open" in the sense of unknown attrs
            ext = []
            for c in order:
                for be, b in zip(c.node.bases, c.bases):
                    if b is None:
                        ext.append(dotted(be) or src(be))
            self._mro = (order, opened, ext)
        return self._mro

    def lookup(self, name):
        """(ClassInfo defining it, FunctionDef|value node) following MRO; None if not found"""
        for c in self.mro()[0]:
            if name in c.methods:
                return c, c.methods[name]
            if name in c.aliases:
                return c, c.methods[c.aliases[name]]
            if name in c.class_attrs:
                return c, c.class_attrs[name]
        return None

    def method(self, name):
        r = self.lookup(name)
        if r and isinstance(r[1], (ast.FunctionDef, ast.AsyncFunctionDef)):
            return r[1]
        return None

    def own_method(self, name):
        m = self.methods.get(name)
        if m is None:
            raise AnchorError("method %s.%s not found" % (self.qual, name))
        return m

    def instance_attrs(self):
        """names assigned as self.X anywhere in this class's methods (own class only)"""
        if self._iattrs is None:
            s = set()
            for m in self.methods.values():
                if not m.args.args:
                    continue
                selfname = m.args.args[0].arg
                for n in ast.walk(m):
                    if isinstance(n, ast.Attribute) and isinstance(n.ctx, (ast.Store, ast.Del)) \
                            and isinstance(n.value, ast.Name) and n.value.id == selfname:
                        s.add(n.attr)
                    elif isinstance(n, ast.Call) and call_name(n) == "setattr" and len(n.args) >= 2 \
                            and isinstance(n.args[0], ast.Name) and n.args[0].id == selfname:
                        k = const_str(n.args[1])
                        s.add(k if k is not None else "*")
            if self.slots:
                s.update(x for x in self.slots if x)
            self._iattrs = s
        return self._iattrs

    def all_attrs(self):
        s = set()
        for c in self.mro()[0]:
            s |= c.instance_attrs() | set(c.methods) | set(c.class_attrs) | set(c.aliases)
        return s

    def is_subclass_of(self, other):
        return other in self.mro()[0]

    def subclasses(self, strict=False):
        out = []
        for c in self.module.repo.all_classes():
            if c.is_subclass_of(self) and not (strict and c is self):
                out.append(c)
        return out


def _c3(ci, _depth=0):
    """C3 linearisation over the known (repo) bases; None if inconsistent or too deep"""
    if _depth > 30:
        return None
    bases = [b for b in ci.bases if b is not None]
    seqs = []
    for b in bases:
        l = _c3(b, _depth + 1)
        if l is None:
            return None
        seqs.append(list(l))
    seqs.append(list(bases))
    out = [ci]
    while True:
        seqs = [s for s in seqs if s]
        if not seqs:
            return out
        for s in seqs:
            cand = s[0]
            if not any(cand in t[1:] for t in seqs):
                break
        else:
            return None
        out.append(cand)
        for s in seqs:
            if s and s[0] is cand:
                del s[0]


class Stdlib:
    """facts about stdlib modules read from their *source files* of the repo interpreter"""

    def __init__(self):
        self.cache = {}
        self.paths = self._stdlib_paths()

    @staticmethod
    def _stdlib_paths():
        # the repo interpreter is /venv/bin/python (3.12); we normally *are* that interpreter
        p = [sysconfig.get_paths()["stdlib"]]
        return p

    def _find(self, modname):
        rel = modname.replace(".", "/")
        for base in self.paths:
            for cand, pkg in ((os.path.join(base, rel + ".py"), False),
                              (os.path.join(base, rel, "__init__.py"), True)):
                if os.path.isfile(cand):
                    return cand, pkg
        return None, False

    def info(self, modname):
        """dict(names=set|None(open), is_pkg, exists)"""
        if modname in self.cache:
            return self.cache[modname]
        path, pkg = self._find(modname)
        res = {"exists": False, "names": None, "is_pkg": False, "open": True}
        if path:
            res["exists"] = True
            res["is_pkg"] = pkg
            try:
                tree = ast.parse(open(path, encoding="utf8", errors="replace").read())
                names, opened = set(), False
                self._collect(tree.body, names)
                for n in ast.walk(tree):
                    if isinstance(n, ast.ImportFrom) and any(a.name == "*" for a in n.names):
                        opened = True
                    if isinstance(n, ast.Call) and isinstance(n.func, ast.Attribute) \
                            and n.func.attr in ("update", "setdefault", "__setitem__") \
                            and isinstance(n.func.value, ast.Call) \
                            and call_name(n.func.value) in ("globals", "vars"):
                        opened = True
                    if isinstance(n, ast.Subscript) and isinstance(n.ctx, ast.Store) \
                            and isinstance(n.value, ast.Call) \
                            and call_name(n.value) in ("globals", "vars"):
                        opened = True
                    if isinstance(n, ast.Call) and call_name(n) == "setattr" and n.args \
                            and "modules" in src(n.args[0]):
                        opened = True
                    if isinstance(n, ast.FunctionDef) and n.name == "__getattr__" \
                            and n in tree.body:
                        opened = True
                res["names"] = names
                res["open"] = opened
            except SyntaxError:
                pass
        elif modname in sys.builtin_module_names or modname.split(".")[0] in sys.stdlib_module_names:
            res["exists"] = True  # C extension / frozen: open
        self.cache[modname] = res
        return res

    def _collect(self, body, names):
        for st in body:
            if isinstance(st, (ast.FunctionDef, ast.AsyncFunctionDef, ast.ClassDef)):
                names.add(st.name)
            elif isinstance(st, ast.Import):
                for a in st.names:
                    names.add(a.asname or a.name.split(".")[0])
            elif isinstance(st, ast.ImportFrom):
                for a in st.names:
                    names.add(a.asname or a.name)
            elif isinstance(st, (ast.Assign, ast.AnnAssign, ast.AugAssign)):
                ts = st.targets if isinstance(st, ast.Assign) else [st.target]
                for t in ts:
                    for n in ast.walk(t):
                        if isinstance(n, ast.Name):
                            names.add(n.id)
            elif isinstance(st, (ast.If, ast.While, ast.For, ast.With, ast.Try)):
                if isinstance(st, ast.For):
                    for n in ast.walk(st.target):
                        if isinstance(n, ast.Name):
                            names.add(n.id)
                for fld in ("body", "orelse", "finalbody"):
                    self._collect(getattr(st, fld, []), names)
                for h in getattr(st, "handlers", []):
                    self._collect(h.body, names)

    def is_module(self, modname):
        i = self.info(modname)
        return i["exists"]

    def is_known_toplevel(self, modname):
        top = modname.split(".")[0]
        return top in sys.stdlib_module_names or self.info(top)["exists"]

    def binds(self, modname, name):
        i = self.info(modname)
        return bool(i["names"] is not None and name in i["names"])

    def has_name(self, modname, name):
        """True / False / None(unknown: open module, C extension, third party)"""
        i = self.info(modname)
        if not i["exists"]:
            return None
        if i["names"] is None or i["open"]:
            return None if not (i["names"] and name in i["names"]) else True
        if name in i["names"]:
            return True
        if i["is_pkg"] and self.info(modname + "." + name)["exists"]:
            return True
        return False

    def star(self, modname):
        i = self.info(modname)
        if i["names"]:
            return [n for n in i["names"] if not n.startswith("_")]
        return []


class Repo:
    def __init__(self, root=None, overlay=None, include_tests=True):
        self.root = root or REPO_ROOT
        self.overlay = overlay or {}
        self.modules = {}
        self.by_path = {}
        self.stdlib = _STDLIB
        self.parse_errors = []
        self._load(include_tests)
        self._all_classes = None
        self._funcs_by_node = None

    # ------------------------------------------------------------------ loading
    def _load(self, include_tests):
        files = {}
        pk = os.path.join(self.root, PKG)
        for dp, dns, fns in os.walk(pk):
            dns[:] = [d for d in dns if d != "__pycache__"]
            for fn in fns:
                if fn.endswith(".py"):
                    full = os.path.join(dp, fn)
                    rel = os.path.relpath(full, self.root)
                    files[rel] = None
        for rel, text in self.overlay.items():
            files[rel] = text
        for rel in sorted(files):
            if files[rel] is None:
                with open(os.path.join(self.root, rel), encoding="utf8", errors="replace") as f:
                    files[rel] = f.read()
        normal = os.environ.get("SA_NO_NORMALIZE") != "1"
        if normal:
            from . import normalize
            normalize.prepare_program(files)
        for rel in sorted(files):
            text = files[rel]
            if text == "\0DELETED":
                continue
            parts = rel[:-3].split("/")
            is_pkg = parts[-1] == "__init__"
            if is_pkg:
                parts = parts[:-1]
            name = ".".join(parts)
            if not include_tests and "test" in parts:
                continue
            try:
                m = Module(self, name, rel, text, is_pkg)
            except SyntaxError as ex:
                self.parse_errors.append((rel, str(ex)))
                continue
            self.modules[name] = m
            self.by_path[rel] = m
        if normal:
            normalize.finish_program({rel: m.tree for rel, m in self.by_path.items()})

    def is_repo_modname(self, name):
        return name is not None and (name == PKG or name.startswith(PKG + "."))

    def module_binding(self, name):
        if self.is_repo_modname(name):
            return Binding("module", name)
        return Binding("extmodule", name)

    # ------------------------------------------------------------------ lookups
    def mod(self, name):
        """module by full name or by unique suffix ('base.framing', 'framing')"""
        if name in self.modules:
            return self.modules[name]
        cands = [m for n, m in self.modules.items() if n.endswith("." + name) and not m.is_test]
        if len(cands) == 1:
            return cands[0]
        raise AnchorError("module %r not found (candidates %s)" % (name, [c.name for c in cands]))

    def cls(self, modname, clsname):
        m = self.mod(modname)
        m.ns
        ci = m.classes.get(clsname)
        if ci is None:
            b = m.ns.get(clsname)
            if b is not None and b.kind == "class":
                return b.target
            raise AnchorError("class %s.%s not found" % (m.name, clsname))
        return ci

    def func(self, modname, qual):
        """FunctionDef for 'Class.method' or 'function' in module"""
        m = self.mod(modname)
        m.ns
        if "." in qual:
            c, f = qual.split(".", 1)
            ci = self.cls(modname, c)
            fn = ci.methods.get(f)
            if fn is None:
                raise AnchorError("method %s.%s.%s not found" % (m.name, c, f))
            return fn
        fn = m.funcs.get(qual)
        if fn is None:
            raise AnchorError("function %s.%s not found" % (m.name, qual))
        return fn

    def all_classes(self, include_tests=False):
        if self._all_classes is None:
            out = []
            for m in self.modules.values():
                m.ns
                out.extend(m.classes.values())
                # nested classes are not modelled
            self._all_classes = out
        if include_tests:
            return self._all_classes
        return [c for c in self._all_classes if not c.module.is_test]

    def resolve_name(self, module, name):
        return module.ns.get(name)

    def resolve_expr(self, module, node):
        """Binding for Name / dotted attribute chains through module namespaces"""
        if isinstance(node, ast.Name):
            return module.ns.get(node.id)
        if isinstance(node, ast.Attribute):
            base = self.resolve_expr(module, node.value)
            if base is None:
                return None
            if base.kind == "module":
                tm = self.modules.get(base.target)
                if tm is None:
                    return None
                if node.attr in tm.ns:
                    return tm.ns[node.attr]
                sub = base.target + "." + node.attr
                if sub in self.modules:
                    return Binding("module", sub)
                return Binding("missing", base.target + "." + node.attr)
            if base.kind == "extmodule":
                full = base.target + "." + node.attr
                return Binding("ext", full)
            if base.kind == "ext":
                return Binding("ext", base.target + "." + node.attr)
            if base.kind == "class":
                r = base.target.lookup(node.attr)
                if r and isinstance(r[1], (ast.FunctionDef, ast.AsyncFunctionDef)):
                    return Binding("func", r[1], r[1], r[0].module)
                return Binding("unknown")
        return None

    def resolve_class_expr(self, module, node):
        b = self.resolve_expr(module, node)
        if b is not None and b.kind == "class":
            return b.target
        return None

    def func_qual(self, fn):
        """'ioflo/base/framing.py:Framer.segue' for a FunctionDef"""
        parts = [fn.name if not isinstance(fn, ast.Lambda) else "<lambda>"]
        p = parent(fn)
        while p is not None:
            if isinstance(p, (ast.FunctionDef, ast.AsyncFunctionDef, ast.ClassDef)):
                parts.append(p.name)
            p = parent(p)
        return "%s:%s" % (fn._module.relpath, ".".join(reversed(parts)))

    def site(self, node):
        """'relpath:line func' string for reports"""
        fn = node if isinstance(node, (ast.FunctionDef, ast.AsyncFunctionDef)) else enclosing_func(node)
        m = node._module
        q = self.func_qual(fn).split(":", 1)[1] if fn is not None else "<module>"
        return "%s:%s %s" % (m.relpath, getattr(node, "lineno", 0), q)

    def digests(self, relpaths=None):
        out = {}
        for rel, m in self.by_path.items():
            if relpaths is None or rel in relpaths:
                out[rel] = m.digest
        return out


_STDLIB = Stdlib()

BUILTINS = set(dir(builtins)) | {"__file__", "__name__", "__doc__", "__package__", "__path__",
                                 "__spec__", "__loader__", "__builtins__", "__debug__", "__class__"}
