import json, sys, os, subprocess, glob
pid, rnd = sys.argv[1], sys.argv[2]
props = {json.loads(l)['id']: json.loads(l) for l in open('/verif/properties.jsonl')}
p = props[pid]
taken = []
for f in sorted(glob.glob('/verif/seeded/%s*/meta.json' % pid)):
    taken.append(json.load(open(f)).get('change', '')[:160])
wt = '/tmp/wt/%s_%s' % (pid, rnd)
if not os.path.isdir(wt):
    subprocess.check_call(['git', '-C', '/repo', 'worktree', 'add', '-q', '--detach', wt, 'HEAD'])
text = f"""You are helping to evaluate a verification effort for the Python project ioflo (flow-based automation framework:
FloScript builder, hierarchical frame state machines, skedder scheduler, non-blocking TCP/HTTP/UDP stack).
Your job is to write small source changes to ioflo for ONE stated property.

WORKSPACE
- Your private git worktree of the project: {wt}   (work ONLY there; never read or modify /repo or /verif; NEVER use `git stash`
  -- the stash is shared between all worktrees and other contributors work concurrently; use `git diff > file`, `git checkout -- .`,
  `git apply file` instead)
- Interpreter: /venv/bin/python. Always run from the worktree with PYTHONPATH={wt} so that *your* copy of ioflo is imported.
- Existing test suite: /tmp/seedtools/runtests.sh {wt}    (about 25 s; expected "123 passed, 5 failed" and the line
  "OK: no unexpected failures"; the 5 failures are known sandbox failures and are ignored.)
- No network. Nothing can be installed.

THE PROPERTY ({pid})
{json.dumps(p, indent=1)}

DELIVERABLES  (three variants, each in its own directory {wt}/out/<v>/ with v = d, m1, m2)

Variant d: ONE change to ioflo source (not tests) that BREAKS the property while the code still imports and the existing test suite
still passes.  It must be realistic (a plausible maintainer commit: refactor, optimisation, clean-up, small feature, subtly wrong "fix"),
must need something SPECIFIC to manifest (particular interleaving / fault at a particular point / multi-step sequence / unusual input /
two cooperating sites that each look fine alone), and must differ in mechanism and location from these already taken:
{json.dumps(taken, indent=1)}
 Files: patch.diff (`git diff` against HEAD, ioflo source only), demo.py (standalone, stdlib + ioflo only; exit 0 + "OK" when the property holds,
 exit 1 with a message when violated; passes on the unmodified tree, fails with the patch; < 60 s, localhost only),
 meta.json {{"property": "{pid}", "variant": "d", "change": "<one line>", "needs_to_manifest": "<what must happen>", "ran": "<commands + results>"}}

Variants m1, m2: two BEHAVIOUR-PRESERVING refactors of the code that implements this property (the main functions named in the anchors), each
made of exactly TWO ordinary refactoring steps applied to the same function or to two cooperating functions (the sort of clean-up commit a
reviewer waves through), e.g. hoist a repeated attribute expression into a local AND turn the nested if into a guard clause; extract a few
statements into a helper method AND rename two locals; replace an if-else assignment by a conditional expression AND merge/split a compound
condition; replace an index loop by enumerate/zip AND move a literal table into a class constant; replace `return True/False` branches by
`return <condition>` AND flip a comparison.  m1 and m2 must use different step kinds and should touch the core logic that decides the property.
 Each must keep behaviour identical for all inputs and keep the property TRUE.  Files per variant: patch.diff, meta.json ({{"property": "{pid}",
 "variant": "m1", "kind": "<the two refactoring kinds>", "change": "<what>", "ran": "..."}}).  With each m-patch applied alone: demo.py of d must
 still pass and the test suite must pass.

ALSO: if, while reading the unmodified code, you notice that the UNMODIFIED tree already violates the stated property for some concrete input,
schedule or history, say so at the end of your reply with the concrete failing input (do not change the code for it, and make your demo avoid it).

VERIFY YOURSELF: d: clean tree demo exits 0; with patch demo exits 1; with patch suite OK.  m1, m2: with patch, demo exits 0 and suite OK.
Leave the worktree clean at the end (`git checkout -- .`; only the untracked out/ directory remains).
Final reply: 2-3 lines per variant plus the verification results you observed.
"""
open('/tmp/seedprompts/%s_%s.txt' % (pid, rnd), 'w').write(text)
print(wt)
