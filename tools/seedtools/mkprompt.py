import json, sys, os, subprocess
pid, rnd = sys.argv[1], sys.argv[2]
props = {json.loads(l)['id']: json.loads(l) for l in open('/verif/properties.jsonl')}
p = props[pid]
taken = []
import glob
for f in sorted(glob.glob('/verif/seeded/%s*/meta.json' % pid)):
    taken.append(json.load(open(f)).get('change', ''))
wt = '/tmp/wt/%s_%s' % (pid, rnd)
if not os.path.isdir(wt):
    subprocess.check_call(['git', '-C', '/repo', 'worktree', 'add', '-q', '--detach', wt, 'HEAD'])
text = f"""You are helping to evaluate a verification effort for the Python project ioflo (flow-based automation framework:
FloScript builder, hierarchical frame state machines, skedder scheduler, non-blocking TCP/HTTP/UDP stack).
Your job is to write *seeded changes* to ioflo's source for ONE stated property.

WORKSPACE
- Your private git worktree of the project: {wt}   (work ONLY there; never read or modify /repo or /verif; NEVER use `git stash` -- the stash is shared between all worktrees of the repository and other contributors work concurrently; use `git diff > file`, `git checkout -- .`, `git apply file` instead)
- Interpreter: /venv/bin/python. Always run from the worktree with PYTHONPATH={wt} so that *your* copy of ioflo is imported
  (check once with: cd {wt} && PYTHONPATH={wt} /venv/bin/python -c "import ioflo; print(ioflo.__file__)").
- Existing test suite: /tmp/seedtools/runtests.sh {wt}    (about 25 s; expected result "123 passed, 5 failed" and the line
  "OK: no unexpected failures"; the 5 failures are known sandbox failures in ioflo/aio/tcp/test/test_tcping.py and are ignored.)
- No network. Nothing can be installed.

THE PROPERTY ({pid})
{json.dumps(p, indent=1)}

DELIVERABLES  (three variants, each in its own directory {wt}/out/<v>/ with v = a, b, n)

Variants a and b: two INDEPENDENT changes to ioflo source (not tests) that each BREAK the property while the code still
imports and the existing test suite still passes.  Requirements:
 * realistic: something a maintainer could plausibly commit (a refactor, optimisation, clean-up, small feature or "fix" that is subtly wrong);
   it must not look like sabotage, must not add dead flags/env switches, and must keep the code style.
 * it needs something SPECIFIC to manifest: a particular interleaving, a fault/partial result at a particular point, a multi-step
   sequence of operations, an unusual input, or two cooperating sites that each look fine alone.  Ordinary use must not expose it at once.
 * a and b use different mechanisms and, if possible, different functions/files (all code relevant to the property is fair game,
   not just the first anchor).
 * both differ from the changes already taken by earlier contributors: {json.dumps(taken)}
 Files per variant:
   patch.diff  - `git diff` against HEAD of the worktree (ioflo source files only), applies with `git apply`
   demo.py     - standalone script using only the stdlib + ioflo; exits 0 (prints OK) when the property holds on what it exercises,
                 exits 1 with a message when it is violated.  Must pass on the unmodified tree and fail with the patch. < 60 s, localhost only.
   meta.json   - {{"property": "{pid}", "variant": "a", "change": "<one line>", "needs_to_manifest": "<what must happen>", "ran": "<commands + results>"}}

Variant n: a BEHAVIOUR-PRESERVING refactor of the code that implements this property (the main functions named in the anchors):
 the property must STILL HOLD afterwards.  Make it the kind of non-trivial clean-up a maintainer would really do -- e.g. extract a helper
 method, rename locals/parameters, restructure if/elif into early returns or vice versa, replace a loop by an equivalent one,
 reorder independent statements, hoist a repeated expression into a local, move a constant table -- touching the core logic
 (not just comments/whitespace).  It must keep behaviour identical for all inputs (be careful and conservative about semantics).
 Files: patch.diff, meta.json ({{"property": "{pid}", "variant": "n", "change": "<what was refactored>", "ran": "..."}}).  Both demo.py of a and b
 must still pass with patch n applied alone, and the test suite must pass.

VERIFY YOURSELF for a and b: (1) clean tree: demo exits 0; (2) with the patch: demo exits 1; (3) with the patch: test suite OK.
For n: with the patch, both demos exit 0 and the suite is OK.
When finished leave the worktree clean (`git checkout -- .`; only the untracked out/ directory remains).
Final reply: 3-4 lines per variant (what changed, where, what it needs to manifest), plus the verification results you observed.
"""
open('/tmp/seedprompts/%s_%s.txt' % (pid, rnd), 'w').write(text)
print(wt)
