import json, sys, os, subprocess, glob
pid, rnd = sys.argv[1], sys.argv[2]
props = {json.loads(l)['id']: json.loads(l) for l in open('/verif/properties.jsonl')}
p = props[pid]
taken = []
for f in sorted(glob.glob('/verif/seeded/%s*/meta.json' % pid)):
    taken.append(json.load(open(f)).get('change', '')[:160])
wt = '/tmp/wt/%s_%s' % (pid, rnd)
if not os.path.isdir(wt):
    subprocess.check_call(['git', '-C', '/repo', 'worktree', 'add', '-q', '--detach', wt, 'HEAD'])
text = f"""You are helping to evaluate a verification effort for the Python project ioflo (flow-based automation framework:
FloScript builder, hierarchical frame state machines, skedder scheduler, non-blocking TCP/HTTP/UDP stack).
Your job is to write small source changes to ioflo for ONE stated property.

WORKSPACE
- Your private git worktree of the project: {wt}   (work ONLY there; never read or modify /repo or /verif; NEVER use `git stash`
  -- the stash is shared between all worktrees and other contributors work concurrently; use `git diff > file`, `git checkout -- .`,
  `git apply file` instead)
- Interpreter: /venv/bin/python. Always run from the worktree with PYTHONPATH={wt} so that *your* copy of ioflo is imported.
- Existing test suite: /tmp/seedtools/runtests.sh {wt}    (about 25 s; expected "123 passed, 5 failed" and the line
  "OK: no unexpected failures"; the 5 failures are known sandbox failures and are ignored.)
- No network. Nothing can be installed.

THE PROPERTY ({pid})
{json.dumps(p, indent=1)}

DELIVERABLES  (four variants, each in its own directory {wt}/out/<v>/ with v = c, n1, n2, n3)

Variant c: ONE change to ioflo source (not tests) that BREAKS the property while the code still imports and the existing test suite
still passes.  It must be realistic (a plausible maintainer commit: refactor, optimisation, clean-up, small feature, subtly wrong "fix"),
must need something SPECIFIC to manifest (particular interleaving / fault at a particular point / multi-step sequence / unusual input /
two cooperating sites that each look fine alone), and must differ in mechanism and location from these already taken:
{json.dumps(taken, indent=1)}
 Files: patch.diff (`git diff` against HEAD, ioflo source only), demo.py (standalone, stdlib + ioflo only; exit 0 + "OK" when the property holds,
 exit 1 with a message when violated; passes on the unmodified tree, fails with the patch; < 60 s, localhost only),
 meta.json {{"property": "{pid}", "variant": "c", "change": "<one line>", "needs_to_manifest": "<what must happen>", "ran": "<commands + results>"}}

Variants n1, n2, n3: three SMALL, INDEPENDENT, BEHAVIOUR-PRESERVING edits of the code that implements this property (the main functions named
in the anchors).  Each is ONE ordinary refactoring step of a different kind, the sort of thing a reviewer waves through, e.g.:
  rename a local variable or two / extract a few statements into a helper method (or inline a trivial helper) / turn a nested if into a guard
  clause with early return (or the reverse) / hoist a repeated attribute expression into a local / replace an index loop by enumerate or a
  for-loop by a comprehension where equivalent / reorder two independent statements / split or merge a compound condition / replace an
  if-else assignment by a conditional expression / move a literal table into a module or class constant / add logging or a comment /
  flip a comparison (a < b  <->  b > a) / replace `x == A or x == B` by `x in (A, B)`.
 Each must keep behaviour identical for all inputs and keep the property TRUE.  Use three DIFFERENT kinds, each touching the core logic of
 an anchored function (not only comments).  Files per variant: patch.diff, meta.json ({{"property": "{pid}", "variant": "n1", "kind": "<refactoring kind>",
 "change": "<what>", "ran": "..."}}).  With each n-patch applied alone: demo.py of c must still pass and the test suite must pass.

VERIFY YOURSELF: c: clean tree demo exits 0; with patch demo exits 1; with patch suite OK.  n1..n3: with patch, demo exits 0 and suite OK.
Leave the worktree clean at the end (`git checkout -- .`; only the untracked out/ directory remains).
Final reply: 2-3 lines per variant plus the verification results you observed.
"""
open('/tmp/seedprompts/%s_%s.txt' % (pid, rnd), 'w').write(text)
print(wt)
