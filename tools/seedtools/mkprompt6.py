import json, sys, os, subprocess, glob
pid, rnd = sys.argv[1], sys.argv[2]
props = {json.loads(l)['id']: json.loads(l) for l in open('/verif/properties.jsonl')}
p = props[pid]
taken = []
for f in sorted(glob.glob('/verif/seeded/%s*/meta.json' % pid)):
    taken.append(json.load(open(f)).get('change', '')[:160])
wt = '/tmp/wt/%s_%s' % (pid, rnd)
if not os.path.isdir(wt):
    subprocess.check_call(['git', '-C', '/repo', 'worktree', 'add', '-q', '--detach', wt, 'HEAD'])
text = f"""You are helping to evaluate a verification effort for the Python project ioflo (flow-based automation framework:
FloScript builder, hierarchical frame state machines, skedder scheduler, non-blocking TCP/HTTP/UDP stack).
Your job is to write small source changes to ioflo for ONE stated property.

WORKSPACE
- Your private git worktree of the project: {wt}   (work ONLY there; never read or modify /repo or /verif; NEVER use `git stash`
  -- the stash is shared between all worktrees and other contributors work concurrently; use `git diff > file`, `git checkout -- .`,
  `git apply file` instead)
- Interpreter: /venv/bin/python. Always run from the worktree with PYTHONPATH={wt} so that *your* copy of ioflo is imported.
- Existing test suite: /tmp/seedtools/runtests.sh {wt}    (about 25 s; expected "123 passed, 5 failed" and the line
  "OK: no unexpected failures"; the 5 failures are known sandbox failures and are ignored.)
- No network. Nothing can be installed.

THE PROPERTY ({pid})
{json.dumps(p, indent=1)}

DELIVERABLES  (two variants, each in its own directory {wt}/out/<v>/ with v = f, m4)

Variant f ("indirect", second wave): ONE change to ioflo source (not tests) that BREAKS the property while the code still imports and the
existing test suite still passes -- and the change must NOT touch the bodies of the functions/methods named in the property's anchors.  Break the
property from somewhere else those functions depend on or that feeds them (a helper or utility they call, a base class / mixin / inherited method,
a new overriding method in a subclass, a constructor or reinit default, a module-level constant / table / regular expression, a property or
descriptor, a data-structure class, a caller that prepares their inputs or consumes their result, a sibling class that should behave the same,
an import/alias that rebinds a name, class-level state shared between instances, an `__eq__`/`__hash__`/`__len__`/`__bool__` of an object they
test).  It must be realistic (a plausible maintainer commit) and must differ in mechanism AND location from these already taken:
{json.dumps(taken, indent=1)}
 Files: patch.diff (`git diff` against HEAD, ioflo source only), demo.py (standalone, stdlib + ioflo only; exit 0 + "OK" when the property holds,
 exit 1 with a message when violated; passes on the unmodified tree, fails with the patch; < 60 s, localhost only),
 meta.json {{"property": "{pid}", "variant": "f", "change": "<one line>", "needs_to_manifest": "<what must happen>", "ran": "<commands + results>"}}

Variant m4: ONE BEHAVIOUR-PRESERVING change in the NEIGHBOURHOOD of the anchored functions (not a rewrite of their core logic): e.g. add an
override in a subclass that only delegates to super() with the same arguments and returns its result; wrap a function with a transparent
decorator (functools.wraps, calls through once with the same arguments, returns the result unchanged, e.g. for tracing at profuse verbosity);
rename a private helper, attribute or local consistently everywhere it is used; move a class constant to module level (or back) and reference it;
replace a direct attribute write by a call to a new trivial setter method (or the reverse); add a new read-only accessor/property and use it in
one caller; reorder independent statements or method definitions; add a defensive assertion-free guard that can never trigger given the callers;
give a helper an extra keyword parameter with a default that reproduces today's behaviour; add a second (unused or logging-only) reader of a
queue/table.  It must keep behaviour identical for all inputs and keep the property TRUE.  Files: patch.diff, meta.json
({{"property": "{pid}", "variant": "m4", "kind": "<what kind of change>", "change": "<what>", "ran": "..."}}).  With the m4 patch applied alone:
demo.py of f must still pass and the test suite must pass.

ALSO: if, while reading the unmodified code, you notice that the UNMODIFIED tree already violates the stated property for some concrete input,
schedule or history, say so at the end of your reply with the concrete failing input (do not change the code for it, and make your demo avoid it).

VERIFY YOURSELF: f: clean tree demo exits 0; with patch demo exits 1; with patch suite OK.  m4: with patch, demo exits 0 and suite OK.
Leave the worktree clean at the end (`git checkout -- .`; only the untracked out/ directory remains).
Final reply: 2-3 lines per variant plus the verification results you observed.
"""
open('/tmp/seedprompts/%s_%s.txt' % (pid, rnd), 'w').write(text)
print(wt)
