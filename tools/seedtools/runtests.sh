#!/bin/sh
# usage: runtests.sh <worktree>   -- runs the pinned ioflo test suite of that tree in a private network namespace
T=${1:?worktree}
L=$(mktemp)
cd "$T" && unshare -rn sh -c 'ip link set lo up; PYTHONPATH=. /venv/bin/python -W ignore -m pytest -q -p no:cacheprovider --timeout=900 --continue-on-collection-errors 2>&1' > $L
tail -1 $L
grep -E "^(FAILED|ERROR)" $L | grep -v -E "testTLSConnectionVerifyBothTLSv1|testTLSConnectionVerifyNeither|testTcpClientServer( |$)|testTcpClientServerService( |$)|testTcpClientServerServiceCat" && echo "UNEXPECTED FAILURES ABOVE (your change broke a test)" || echo "OK: no unexpected failures (the 5 known sandbox failures are ignored)"
rm -f $L
