import json, sys, os, subprocess, glob
pid, rnd = sys.argv[1], sys.argv[2]
props = {json.loads(l)['id']: json.loads(l) for l in open('/verif/properties.jsonl')}
p = props[pid]
taken = []
for f in sorted(glob.glob('/verif/seeded/%s*/meta.json' % pid)):
    taken.append(json.load(open(f)).get('change', '')[:160])
wt = '/tmp/wt/%s_%s' % (pid, rnd)
if not os.path.isdir(wt):
    subprocess.check_call(['git', '-C', '/repo', 'worktree', 'add', '-q', '--detach', wt, 'HEAD'])
text = f"""You are helping to evaluate a verification effort for the Python project ioflo (flow-based automation framework:
FloScript builder, hierarchical frame state machines, skedder scheduler, non-blocking TCP/HTTP/UDP stack).
Your job is to write small source changes to ioflo for ONE stated property.

WORKSPACE
- Your private git worktree of the project: {wt}   (work ONLY there; never read or modify /repo or /verif; NEVER use `git stash`
  -- the stash is shared between all worktrees and other contributors work concurrently; use `git diff > file`, `git checkout -- .`,
  `git apply file` instead)
- Interpreter: /venv/bin/python. Always run from the worktree with PYTHONPATH={wt} so that *your* copy of ioflo is imported.
- Existing test suite: /tmp/seedtools/runtests.sh {wt}    (about 25 s; expected "123 passed, 5 failed" and the line
  "OK: no unexpected failures"; the 5 failures are known sandbox failures and are ignored.)
- No network. Nothing can be installed.

THE PROPERTY ({pid})
{json.dumps(p, indent=1)}

DELIVERABLES  (two variants, each in its own directory {wt}/out/<v>/ with v = e, m3)

Variant e ("indirect"): ONE change to ioflo source (not tests) that BREAKS the property while the code still imports and the existing test
suite still passes -- but the change must NOT touch the bodies of the functions/methods named in the property's anchors.  Break the property
from somewhere else that those functions depend on or that feeds them: a helper or utility they call, a base class / mixin / inherited method,
an overriding method added in a subclass, a constructor or reinit default, a module-level constant / table / regular expression, a property or
descriptor, a data structure class (odict, deque wrapper, store node), a caller that prepares their inputs or consumes their result, a sibling
class that should behave the same, an import/alias that rebinds a name, a decorator.  It must be realistic (a plausible maintainer commit:
refactor, optimisation, clean-up, small feature, subtly wrong "fix") and must differ in mechanism and location from these already taken:
{json.dumps(taken, indent=1)}
 Files: patch.diff (`git diff` against HEAD, ioflo source only), demo.py (standalone, stdlib + ioflo only; exit 0 + "OK" when the property holds,
 exit 1 with a message when violated; passes on the unmodified tree, fails with the patch; < 60 s, localhost only),
 meta.json {{"property": "{pid}", "variant": "e", "change": "<one line>", "needs_to_manifest": "<what must happen>", "ran": "<commands + results>"}}

Variant m3: ONE BEHAVIOUR-PRESERVING refactor that MOVES responsibility between program units in the code that implements this property:
e.g. move a block from an anchored method into a new or existing helper method/function (or inline an existing small helper into its caller),
pull a method up into the base class or push it down, move a literal table/constant between module, class and function level, replace a
method by a module function + thin delegating method, split one method into two phases called in sequence, merge two small cooperating
methods into one.  It must keep behaviour identical for all inputs and keep the property TRUE.  Files: patch.diff, meta.json
({{"property": "{pid}", "variant": "m3", "kind": "<refactoring kind>", "change": "<what>", "ran": "..."}}).  With the m3 patch applied alone:
demo.py of e must still pass and the test suite must pass.

ALSO: if, while reading the unmodified code, you notice that the UNMODIFIED tree already violates the stated property for some concrete input,
schedule or history, say so at the end of your reply with the concrete failing input (do not change the code for it, and make your demo avoid it).

VERIFY YOURSELF: e: clean tree demo exits 0; with patch demo exits 1; with patch suite OK.  m3: with patch, demo exits 0 and suite OK.
Leave the worktree clean at the end (`git checkout -- .`; only the untracked out/ directory remains).
Final reply: 2-3 lines per variant plus the verification results you observed.
"""
open('/tmp/seedprompts/%s_%s.txt' % (pid, rnd), 'w').write(text)
print(wt)
