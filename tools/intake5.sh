#!/bin/sh
# intake of a round-5 sub-agent output: tools/intake4.sh C02   (reads /tmp/wt/C02_r5/out/{e,m3}); confirms, evaluates, stores
ID=$1; O=/tmp/wt/${ID}_r5/out
if [ -f $O/e/patch.diff ]; then
  echo "== $ID e: $(python3 -c "import json;print(json.load(open('$O/e/meta.json')).get('change','')[:180])" 2>/dev/null)"
  /verif/tools/confirm_seed.sh ${ID}_r5e $O/e/patch.diff $O/e/demo.py
  /verif/tools/evalpatch.py $O/e/patch.diff 2>&1 | cut -c1-240 | tail -6
  D=/verif/seeded/${ID}_r5e; mkdir -p $D; cp $O/e/patch.diff $O/e/demo.py $O/e/meta.json $D/
fi
for v in m3; do
  [ -f $O/$v/patch.diff ] || continue
  echo "== $ID $v (neutral): $(python3 -c "import json;m=json.load(open('$O/$v/meta.json'));print(m.get('kind',''),'|',m.get('change','')[:150])" 2>/dev/null)"
  WT=/tmp/confirm_${ID}_$v.$$
  git -C /repo worktree add -q --detach $WT HEAD
  ( cd $WT && git apply $O/$v/patch.diff && { [ -f $O/e/demo.py ] && { PYTHONPATH=$WT timeout 300 /venv/bin/python -W ignore $O/e/demo.py >/dev/null 2>&1; echo "  demo e rc=$?"; }; /verif/tools/baseline.sh $WT | tr '\n' ' '; echo; } )
  git -C /repo worktree remove --force $WT
  /verif/tools/evalpatch.py $O/$v/patch.diff 2>&1 | cut -c1-240 | tail -6
  D=/verif/neutral/${ID}_r5$v; mkdir -p $D; cp $O/$v/patch.diff $O/$v/meta.json $D/
done
