#!/bin/sh
# intake of a round-4 sub-agent output: tools/intake4.sh C02   (reads /tmp/wt/C02_r4/out/{d,m1,m2}); confirms, evaluates, stores
ID=$1; O=/tmp/wt/${ID}_r4/out
if [ -f $O/d/patch.diff ]; then
  echo "== $ID d: $(python3 -c "import json;print(json.load(open('$O/d/meta.json')).get('change','')[:180])" 2>/dev/null)"
  /verif/tools/confirm_seed.sh ${ID}_r4d $O/d/patch.diff $O/d/demo.py
  /verif/tools/evalpatch.py $O/d/patch.diff 2>&1 | cut -c1-240 | tail -6
  D=/verif/seeded/${ID}_r4d; mkdir -p $D; cp $O/d/patch.diff $O/d/demo.py $O/d/meta.json $D/
fi
for v in m1 m2; do
  [ -f $O/$v/patch.diff ] || continue
  echo "== $ID $v (neutral): $(python3 -c "import json;m=json.load(open('$O/$v/meta.json'));print(m.get('kind',''),'|',m.get('change','')[:150])" 2>/dev/null)"
  WT=/tmp/confirm_${ID}_$v.$$
  git -C /repo worktree add -q --detach $WT HEAD
  ( cd $WT && git apply $O/$v/patch.diff && { [ -f $O/d/demo.py ] && { PYTHONPATH=$WT timeout 300 /venv/bin/python -W ignore $O/d/demo.py >/dev/null 2>&1; echo "  demo d rc=$?"; }; /verif/tools/baseline.sh $WT | tr '\n' ' '; echo; } )
  git -C /repo worktree remove --force $WT
  /verif/tools/evalpatch.py $O/$v/patch.diff 2>&1 | cut -c1-240 | tail -6
  D=/verif/neutral/${ID}_r4$v; mkdir -p $D; cp $O/$v/patch.diff $O/$v/meta.json $D/
done
