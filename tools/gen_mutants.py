#!/venv/bin/python
"""(re)generate /verif/mutants: one reverse-applicable diff per `fix:` commit of /repo plus an index that maps each to the
properties whose check must report the defect when it returns.  Run by hand after adding fix commits; the thorough tier only
reads the committed files."""
import json, os, re, subprocess
MAP = [  # (commit subject regex, properties)
 (r"import collections.abc explicitly", ["C01"]), (r"optimizing imports on python3", ["C01"]),
 (r"undefined CommandNames", ["C04", "C03"]), (r"Framer.exitAll exits the full", ["C03"]),
 (r"completing.py uses AUX", ["C09"]), (r"resolveFramer error path", ["C09", "C14"]),
 (r"malformed format templates", ["C07", "C14"]), (r"IncIndirect.action referenced", ["C07"]),
 (r"NeedIndirect._resolve used undefined", ["C07"]), (r"ArbiterTrusted.update compared", ["C45"]),
 (r"FilterCtdMin.action", ["C07"]), (r"Framer.prune rebinds", ["C12", "C47"]),
 (r"builder error paths raised TypeError", ["C14"]), (r"make\* need/inc/goal helpers", ["C14"]),
 (r"Share.__init__ called nonexistent", ["C19"]), (r"resolveOverLinks detects any cycle", ["C14"]),
 (r"buildDo 'as' name list", ["C15"]), (r"optional frame name of rear/raze", ["C15"]),
 (r"Store.add/addNode validate", ["C18"]), (r"Store.fetch/fetchShare/fetchNode", ["C18"]),
 (r"Share.reorder operated", ["C19"]), (r"TLS transports listed the exception class", ["C25"]),
 (r"GramStack._serviceOneReceived compared", ["C25"]), (r"Server.serviceAxes subscripted", ["C26"]),
 (r"ServerTls.serviceCxes shuts down", ["C26"]), (r"IncomerTls.receive/send restart", ["C28"]),
 (r"lodict did not lowercase", ["C39"]), (r"modict.popitem/poplistitem", ["C39"]),
 (r"parseLine/parseLeader took the first", ["C33", "C29"]), (r"parseLeader required ': '", ["C29", "C32"]),
 (r"parseChunk raised ValueError", ["C32"]), (r"unquoteQuery subscripted", ["C30"]),
 (r"reused Responder lost", ["C31"]), (r"parseEventStream advanced an undefined", ["C33"]),
 (r"Patron.redirect with a relative", ["C34"]), (r"Requester.build percent-encoded", ["C30"]),
 (r"normalizeHost raised through an undefined", ["C34"]), (r"GramStack stopped its transmit pass", ["C35"]),
 (r"removeRemote formatted an undefined", ["C37"]), (r"spelled its parameter redoTimout", ["C38"]),
 (r"passed self as an extra argument", ["C36"]), (r"referenced IpRemoteDevice", ["C36"]),
 (r"nonexistent incState", ["C36"]),
 (r"EventSource decodes event stream fields", ["C32"]), (r"parseChunk extension names", ["C29", "C32"]),
 (r"restarts the line parser after 100 Continue", ["C29", "C32"]), (r"invalid request url to InvalidURL", ["C32"]),
 (r"Frame.attach loop error", ["C14"]), (r"TcpClientStack keeps sending a partly sent", ["C36"]), (r"EventSource reads a CRLF split across", ["C33"]), (r"treats a tasker whose generator returned as aborted", ["C03"]), (r"aborts the remaining taskers when one fails", ["C03"]), (r"Framer.prune also prunes the named clones", ["C12"]), (r"deleting a field of a Data record", ["C19"]), (r"Patron responses carry their own copy", ["C30"]), (r"modict.get returns the newest", ["C39"]), (r"odict.reorder with the odict itself", ["C39"]), (r"MonoTimer.repeat and extend compensate", ["C42"]), (r"serviceTxPktsOnce keeps per destination order", ["C35"]), (r"3xx response without a Location", ["C32"]), (r"Steward.refresh referenced undefined", ["C32"]), (r"Porter.serviceStewards closes the connection", ["C32"]), (r"Steward.respond echoes a non utf-8", ["C32"]),
]
os.makedirs("/verif/mutants", exist_ok=True)
base = open("/root/.vp/repo_root_sha").read().strip() if os.path.exists("/root/.vp/repo_root_sha") else None
log = subprocess.check_output(["git", "-C", "/repo", "log", "--reverse", "--format=%H %s"], text=True).splitlines()
index = []
n = 0
for line in log:
    h, _, subj = line.partition(" ")
    if not subj.startswith("fix:"):
        continue
    props = None
    for rx, ps in MAP:
        if re.search(rx, subj):
            props = ps
    n += 1
    name = "revert_%02d_%s" % (n, re.sub(r"[^a-zA-Z0-9]+", "_", subj[5:45]).strip("_"))
    diff = subprocess.check_output(["git", "-C", "/repo", "show", "--format=", h], text=True)
    open("/verif/mutants/%s.diff" % name, "w").write(diff)
    index.append({"id": name, "diff": "mutants/%s.diff" % name, "reverse": True, "commit": h[:10], "subject": subj,
                  "properties": props or [], "kind": "defect fixed in /repo returns"})
json.dump(index, open("/verif/mutants/index.json", "w"), indent=1)
print(len(index), "reverts;", sum(1 for i in index if not i["properties"]), "unmapped:", [i["subject"][:50] for i in index if not i["properties"]])

# refresh the `fixed` records of known_findings.json from the same commits (one line per fix commit; informational: a fixed
# entry suppresses nothing)
kp = "/verif/known_findings.json"
k = json.load(open(kp))
k["fixed"] = ["fixed: property=%s %s %s" % ((i["properties"] or ["?"])[0], i["commit"], i["subject"][5:]) for i in index]
json.dump(k, open(kp, "w"), indent=1)
