#!/venv/bin/python
"""apply one of selftest's neutral transforms to every non-test module and report which checks change verdict
usage: tools/neutral_probe.py alpha-rename-locals|flip-if-else|membership-spelling [PROP...]"""
import json, os, sys, warnings
V = os.path.dirname(os.path.dirname(os.path.abspath(__file__)))
sys.path.insert(0, V); warnings.simplefilter("ignore")
from concurrent.futures import ProcessPoolExecutor
from sa.model import Repo, AnchorError
from sa import selftest

def job(a):
    prop, ov = a
    from sa.check import run_property
    out = []
    for o in (None, ov):
        try:
            with warnings.catch_warnings():
                warnings.simplefilter("ignore")
                ctx, _ = run_property(prop, "quick", 0, repo=Repo(overlay=o) if o else Repo())
            out.append(("ok", sorted(tuple(v.key()) for v in ctx.violations)))
        except AnchorError as ex:
            out.append(("anchor", str(ex)[:200]))
        except Exception as ex:
            out.append(("crash", "%s %s" % (type(ex).__name__, str(ex)[:200])))
    return prop, out

name = sys.argv[1]
fn = dict(selftest.NEUTRAL)[name]
props = sys.argv[2:] or [c["property_id"] for c in json.load(open(V + "/MANIFEST.json"))["checks"]]
r0 = Repo()
ov = {}
for rel, m in r0.by_path.items():
    if not m.is_test:
        try: ov[rel] = fn(m.source)
        except Exception as ex: print("cannot transform", rel, ex)
bad = []
with ProcessPoolExecutor(16) as ex:
    for prop, (b, p) in ex.map(job, [(q, ov) for q in props]):
        if p[0] != "ok":
            print(prop, p[0].upper(), p[1]); bad.append(prop)
        else:
            new = [k for k in p[1] if k not in (b[1] if b[0] == "ok" else [])]
            for k in new: print(prop, " | ".join(k[1:])[:230])
            if new: bad.append(prop)
print("FLAGGED-BY:", " ".join(bad) or "none")
