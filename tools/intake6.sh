#!/bin/sh
# intake of a round-6 sub-agent output: tools/intake4.sh C02   (reads /tmp/wt/C02_r6/out/{f,m4}); confirms, evaluates, stores
ID=$1; O=/tmp/wt/${ID}_r6/out
if [ -f $O/f/patch.diff ]; then
  echo "== $ID f: $(python3 -c "import json;print(json.load(open('$O/f/meta.json')).get('change','')[:180])" 2>/dev/null)"
  /verif/tools/confirm_seed.sh ${ID}_r6f $O/f/patch.diff $O/f/demo.py
  /verif/tools/evalpatch.py $O/f/patch.diff 2>&1 | cut -c1-240 | tail -6
  D=/verif/seeded/${ID}_r6f; mkdir -p $D; cp $O/f/patch.diff $O/f/demo.py $O/f/meta.json $D/
fi
for v in m4; do
  [ -f $O/$v/patch.diff ] || continue
  echo "== $ID $v (neutral): $(python3 -c "import json;m=json.load(open('$O/$v/meta.json'));print(m.get('kind',''),'|',m.get('change','')[:150])" 2>/dev/null)"
  WT=/tmp/confirm_${ID}_$v.$$
  git -C /repo worktree add -q --detach $WT HEAD
  ( cd $WT && git apply $O/$v/patch.diff && { [ -f $O/f/demo.py ] && { PYTHONPATH=$WT timeout 300 /venv/bin/python -W ignore $O/f/demo.py >/dev/null 2>&1; echo "  demo f rc=$?"; }; /verif/tools/baseline.sh $WT | tr '\n' ' '; echo; } )
  git -C /repo worktree remove --force $WT
  /verif/tools/evalpatch.py $O/$v/patch.diff 2>&1 | cut -c1-240 | tail -6
  D=/verif/neutral/${ID}_r6$v; mkdir -p $D; cp $O/$v/patch.diff $O/$v/meta.json $D/
done
