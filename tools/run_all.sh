#!/bin/sh
# run every registered check at the given tier (default quick), N at a time; prints one line per property
TIER=${1:-quick}; J=${2:-8}
cd /verif
python3 -c "
import json
for c in json.load(open('MANIFEST.json'))['checks']: print(c['property_id'])" | xargs -P $J -I{} sh -c "/venv/bin/python -m sa.check {} --tier $TIER > /tmp/run_{}.$TIER.log 2>&1; echo {} rc=\$? \$(grep -c '^KNOWN-FINDING' /tmp/run_{}.$TIER.log)kf \$(grep -c '^VIOLATION' /tmp/run_{}.$TIER.log)viol \$(grep -E 'mutants|ANALYSIS' /tmp/run_{}.$TIER.log | head -3 | cut -c1-200 | tr '\n' ' ')" | sort
