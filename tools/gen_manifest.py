#!/venv/bin/python
"""regenerate /verif/MANIFEST.json from the property modules present in sa/props"""
import importlib, json, os, sys, warnings
warnings.simplefilter("ignore")
sys.path.insert(0, "/verif")
props = [json.loads(l) for l in open("/verif/properties.jsonl")]
NA = {
 "C13": "metamorphic relation over resolved path strings produced by ~150 lines of runtime list/string surgery in Act.resolvePath; the only structural clause would pin the current guard layout of that one function (a frozen fragment), so no sound static rule is claimed",
 "C16": "relation over token lists derived from runtime text by strip/regex/look-ahead; a static rule would restate the tokenizer; the one robust structural fact (build* methods see only tokens) is necessary but far from the property",
}
TECH = {}
checks, na = [], []
for p in props:
    pid = p["id"]
    path = "/verif/sa/props/%s.py" % pid.lower()
    if pid in NA or not os.path.exists(path):
        na.append({"property_id": pid, "reason": NA.get(pid, "check not built yet (see DESIGN.md section 5 for the planned rules)")})
        continue
    m = importlib.import_module("sa.props.%s" % pid.lower())
    checks.append({
        "property_id": pid,
        "quick_cmd": "/venv/bin/python -m sa.check %s --tier quick" % pid,
        "thorough_cmd": "/venv/bin/python -m sa.check %s --tier thorough" % pid,
        "evidence_file": "/verif/evidence/%s.json" % pid,
        "replay_cmd_template": "/venv/bin/python -m sa.check %s --replay {path}" % pid,
        "engine": "sa",
        "level_claimed": {"category": "other",
                          "text": "static analysis of /repo's current source (nothing is run): " + m.EXPLANATION +
                                  " Each claimed clause is a necessary condition of the property, not the behaviour itself.",
                          "design_ref": "DESIGN.md section 5, %s" % pid},
        "level_note": "NOT decided by this check: " + m.NOT_DECIDED + ". Trusted base: Python's ast grammar of the repo interpreter; the rule tables in sa/props/%s.py (anchors located by class/method/callee names; a vanished anchor is exit 2, never a pass)." % pid.lower(),
        "technique": getattr(m, "TECHNIQUE", "repo-specific static analysis over the ast: per-function CFG path/dominance rules, ownership (who-may-write/call) rules, table/sibling agreement, scoped internal-error construct detectors"),
    })
man = {"version": 1, "setup_cmd": "true",
       "hooks": {"guard": "IOFLO_VERIF", "enable": "none: static analysis reads /repo's working tree; no instrumentation exists",
                 "baseline_off_cmd": "cd /repo && /venv/bin/python -m pytest -ra -q -p no:cacheprovider --timeout=900 --continue-on-collection-errors",
                 "source_commits": [], "add_only": True},
       "engines": [{"name": "sa", "path": "/verif/sa", "serves_properties": [c["property_id"] for c in checks],
                    "kind_free_text": "pure-stdlib static analyser written for this repository: module/class model with resolved imports and MRO, call graph, statement CFG with inlined finally, reaching definitions, rule templates T1-T12, defect detectors D1-D8, import-machinery simulator"}],
       "checks": checks,
       "notes": "All checks are static (ast over /repo's working tree at run time). Exit 0 = claimed clauses hold (KNOWN-FINDING lines for recorded defects), 1 = new violation, 2 = ANALYSIS-ERROR (vanished anchor/instance floor/self-test failure). known_findings.json lists open findings and fixed defects.",
       "not_applicable": na}
json.dump(man, open("/verif/MANIFEST.json", "w"), indent=1)
print(len(checks), "checks;", len(na), "not applicable")
