#!/venv/bin/python
"""Catch matrix: evaluate every stored seed (seeded/*/patch.diff) and neutral refactor (neutral/*/patch.diff) against every
check whose consulted files intersect the patch, on in-memory overlays.  Updates meta.json (detected_by / also_detected_by /
not_detected_by for seeds; flagged_by for neutrals) and writes /verif/seeded/MATRIX.md.
usage: tools/seed_matrix.py [--only PREFIX]"""
import json, os, sys, re, warnings
V = os.path.dirname(os.path.dirname(os.path.abspath(__file__)))
sys.path.insert(0, V)
warnings.simplefilter("ignore")
from concurrent.futures import ProcessPoolExecutor
from sa.model import Repo, AnchorError
from sa import patching

def run(prop, overlay):
    from sa.check import run_property
    try:
        with warnings.catch_warnings():
            warnings.simplefilter("ignore")
            ctx, _ = run_property(prop, "quick", 0, repo=Repo(overlay=overlay) if overlay else Repo())
        return ("ok", sorted(tuple(v.key()) for v in ctx.violations), sorted(ctx.consulted))
    except AnchorError as ex:
        return ("anchor", str(ex)[:200], [])
    except Exception as ex:
        return ("crash", "%s: %s" % (type(ex).__name__, str(ex)[:200]), [])

def job(a):
    return a[0], a[1], run(a[1], a[2])

def main():
    only = sys.argv[sys.argv.index("--only") + 1] if "--only" in sys.argv else ""
    props = [c["property_id"] for c in json.load(open(V + "/MANIFEST.json"))["checks"]]
    repo0 = Repo()
    with ProcessPoolExecutor(16) as ex:
        base = {p: r for _, p, r in ex.map(job, [("base", p, None) for p in props])}
    items = []
    kinds = [sys.argv[sys.argv.index("--kind") + 1]] if "--kind" in sys.argv else ["seeded", "neutral"]
    for kind in kinds:
        d = os.path.join(V, kind)
        for n in sorted(os.listdir(d)) if os.path.isdir(d) else []:
            pf = os.path.join(d, n, "patch.diff")
            if os.path.exists(pf) and n.startswith(only):
                items.append((kind, n, pf))
    jobs, skipped = [], []
    for kind, n, pf in items:
        text = open(pf).read()
        ov = patching.apply(lambda rel: (repo0.by_path[rel].source if rel in repo0.by_path else None), text)
        if ov is None:
            skipped.append(n); continue
        files = set(ov)
        for p in props:
            st, _, cons = base[p]
            own = (json.load(open(os.path.join(V, kind, n, "meta.json"))).get("property") if os.path.exists(os.path.join(V, kind, n, "meta.json")) else None) or n[:3]
            if st != "ok" or files & set(cons) or p == own or "--all" in sys.argv:   # checks that consult a patched file (+ the seed's own)
                jobs.append(((kind, n), p, ov))
    res = {}
    with ProcessPoolExecutor(16) as ex:
        for key, p, r in ex.map(job, jobs, chunksize=2):
            res.setdefault(key, {})[p] = r
    lines = ["| change | property | reported by (VIOLATION) | analysis-error in | note |", "|---|---|---|---|---|"]
    for kind, n, pf in items:
        if n in skipped:
            lines.append("| %s | | | | patch no longer applies |" % n); continue
        viol, anch = [], []
        for p in props:
            if p not in res.get((kind, n), {}):
                continue
            st, payload, _ = res[(kind, n)][p]
            if st == "ok":
                b = set(map(tuple, base[p][1])) if base[p][0] == "ok" else set()
                new = [k for k in payload if tuple(k) not in b]
                if new: viol.append((p, sorted({k[1] for k in new})))
            else:
                anch.append(p)
        mp = os.path.join(V, kind, n, "meta.json")
        meta = json.load(open(mp)) if os.path.exists(mp) else {}
        own = meta.get("property") or n[:3]
        meta["property"] = own
        if kind == "seeded":
            meta["detected_by"] = {p: r for p, r in viol}
            meta["analysis_error_in"] = anch
            meta["also_detected_by"] = [p for p, _ in viol if p != own] + [p for p in anch if p != own]
            if own not in [p for p, _ in viol] + anch: meta["not_detected_by"] = [own]
            else: meta.pop("not_detected_by", None)
        else:
            meta["flagged_by"] = {p: r for p, r in viol}
            meta["analysis_error_in"] = anch
        json.dump(meta, open(mp, "w"), indent=1)
        lines.append("| %s%s | %s | %s | %s | %s |" % (n, " (neutral)" if kind == "neutral" else "", own,
                     "; ".join("%s[%s]" % (p, ",".join(r)) for p, r in viol) or "-", " ".join(anch) or "-",
                     (meta.get("change", "") or "")[:110].replace("|", "/")))
        print(lines[-1][:260])
    if not only and len(kinds) == 2:
        open(os.path.join(V, "seeded", "MATRIX.md"), "w").write("\n".join(lines) + "\n")

if __name__ == "__main__":
    main()
