#!/bin/sh
# tools/rebase_patch.sh <dir with patch.diff>: re-create the patch against /repo HEAD with a 3-way merge in a scratch worktree
D=$1; WT=/tmp/rebase.$$
git -C /repo worktree add -q --detach $WT HEAD
( cd $WT && if git apply --check $D/patch.diff 2>/dev/null; then echo "$D: applies"; else
    if git apply --3way $D/patch.diff >/dev/null 2>&1 && [ -z "$(git diff --name-only --diff-filter=U)" ]; then git reset -q; git diff > $D/patch.diff.new; mv $D/patch.diff.new $D/patch.diff; echo "$D: rebased (3-way)";
    else git checkout -q -- . ; git reset -q --hard; if patch -p1 -F3 --no-backup-if-mismatch < $D/patch.diff >/dev/null 2>&1; then git diff > $D/patch.diff.new; mv $D/patch.diff.new $D/patch.diff; echo "$D: rebased (fuzz)"; else echo "$D: CONFLICT"; fi; fi; fi )
git -C /repo worktree remove --force $WT
