#!/venv/bin/python
"""print the normal form (sa/normalize.py) of a function: tools/shownf.py framing Frame.addByContext [patch.diff]"""
import sys, os, ast, warnings
sys.path.insert(0, os.path.dirname(os.path.dirname(os.path.abspath(__file__)))); warnings.simplefilter("ignore")
from sa.model import Repo
from sa import patching
ov = None
if len(sys.argv) > 3:
    r0 = Repo()
    ov = patching.apply(lambda rel: (r0.by_path[rel].source if rel in r0.by_path else None), open(sys.argv[3]).read())
r = Repo(overlay=ov)
f = r.func(sys.argv[1], sys.argv[2])
print(ast.unparse(f))
