#!/bin/sh
# apply a seeded patch to /repo, run the given property checks (no evidence), undo.  usage: tryseed.sh <patch> C06 [C08 ...]
P=$1; shift
cd /repo && git apply "$P" || { echo "PATCH DOES NOT APPLY"; exit 3; }
cd /verif
for p in "$@"; do /venv/bin/python -m sa.check $p --no-evidence 2>&1 | grep -E "^VIOLATION|construct:|tier=|ANALYSIS|KNOWN" | cut -c1-220; done
cd /repo && git checkout -- . && git status --short | grep -v "^??" | head -3
