#!/venv/bin/python
"""(re)generate /verif/sa/reference.json from /repo's current tree: per function, its parameter names and the binding
signatures of its locals (see sa/normalize.py, N2).  Run by hand after a `fix:` commit; checks only read the committed file."""
import json, os, sys
sys.path.insert(0, os.path.dirname(os.path.dirname(os.path.abspath(__file__))))
from sa import normalize
ref = normalize.build_reference("/repo")
json.dump(ref, open(normalize.REF_PATH, "w"), indent=0, sort_keys=True)
print(sum(len(v) for v in ref["functions"].values()), "functions in", len(ref["functions"]), "modules ->", normalize.REF_PATH, os.path.getsize(normalize.REF_PATH), "bytes")
