#!/bin/sh
# intake of a round-3 sub-agent output: tools/intake3.sh C02   (reads /tmp/wt/C02_r3/out/{c,n1,n2,n3}); confirms, evaluates, stores
ID=$1; O=/tmp/wt/${ID}_r3/out
if [ -f $O/c/patch.diff ]; then
  echo "== $ID c: $(python3 -c "import json;print(json.load(open('$O/c/meta.json')).get('change','')[:180])" 2>/dev/null)"
  /verif/tools/confirm_seed.sh ${ID}_r3c $O/c/patch.diff $O/c/demo.py
  /verif/tools/evalpatch.py $O/c/patch.diff 2>&1 | cut -c1-240 | tail -6
  D=/verif/seeded/${ID}_r3c; mkdir -p $D; cp $O/c/patch.diff $O/c/demo.py $O/c/meta.json $D/
fi
for v in n1 n2 n3; do
  [ -f $O/$v/patch.diff ] || continue
  echo "== $ID $v (neutral): $(python3 -c "import json;m=json.load(open('$O/$v/meta.json'));print(m.get('kind',''),'|',m.get('change','')[:150])" 2>/dev/null)"
  WT=/tmp/confirm_${ID}_$v.$$
  git -C /repo worktree add -q --detach $WT HEAD
  ( cd $WT && git apply $O/$v/patch.diff && { [ -f $O/c/demo.py ] && { PYTHONPATH=$WT timeout 300 /venv/bin/python -W ignore $O/c/demo.py >/dev/null 2>&1; echo "  demo c rc=$?"; }; /verif/tools/baseline.sh $WT | tr '\n' ' '; echo; } )
  git -C /repo worktree remove --force $WT
  /verif/tools/evalpatch.py $O/$v/patch.diff 2>&1 | cut -c1-240 | tail -6
  D=/verif/neutral/${ID}_r3$v; mkdir -p $D; cp $O/$v/patch.diff $O/$v/meta.json $D/
done
