#!/bin/sh
# development-time sanity check of sa/normalize.py (not a registered check; runs code): write the NORMAL FORM of every
# non-test module of a tree (optionally with a neutral patch applied) into a scratch worktree and run the pinned suite and
# the round-2 demos of that property on it.  usage: tools/validate_normalizer.sh [C08_r2]
N=$1
WT=/tmp/normval_${N:-clean}.$$
git -C /repo worktree add -q --detach $WT HEAD || exit 3
cd $WT
[ -n "$N" ] && git apply /verif/neutral/$N/patch.diff
SA_REPO_ROOT=$WT /venv/bin/python - <<PY
import sys, ast, warnings
warnings.simplefilter("ignore"); sys.path.insert(0, "/verif")
from sa.model import Repo
r = Repo(root="$WT")
n = 0
for rel, m in r.by_path.items():
    if m.is_test: continue
    src = ast.unparse(m.tree) + "\n"
    head = m.source.split("\n", 2)
    keep = [l for l in head[:2] if l.startswith("#")]
    open("$WT/" + rel, "w").write("\n".join(keep) + ("\n" if keep else "") + src); n += 1
print("normal form written for", n, "modules")
PY
/verif/tools/baseline.sh $WT | tr '\n' ' '; echo
ID=$(echo "$N" | cut -c1-3)
for v in a b; do
  D=/verif/seeded/${ID}_r2$v/demo.py
  [ -n "$N" ] && [ -f $D ] && { PYTHONPATH=$WT timeout 300 /venv/bin/python -W ignore $D >/dev/null 2>&1; echo "demo $v rc=$?"; }
done
cd /; git -C /repo worktree remove --force $WT
