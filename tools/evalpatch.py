#!/venv/bin/python
"""Evaluate a patch against the checks on an in-memory overlay of /repo (nothing on disk is touched).
usage: tools/evalpatch.py <patch.diff> [PROP ... | all]  [-R]   (default: all 45 claimed properties)
prints, per property, the violations the patch adds relative to the current tree (or ANCHOR/CRASH)."""
import json, os, sys, warnings
sys.path.insert(0, os.path.dirname(os.path.dirname(os.path.abspath(__file__))))
warnings.simplefilter("ignore")
from concurrent.futures import ProcessPoolExecutor
from sa.model import Repo, AnchorError
from sa import patching

def job(args):
    prop, overlay = args
    from sa.check import run_property
    out = {}
    for tag, ov in (("base", None), ("patched", overlay)):
        try:
            with warnings.catch_warnings():
                warnings.simplefilter("ignore")
                ctx, _ = run_property(prop, "quick", 0, repo=Repo(overlay=ov) if ov else Repo())
            out[tag] = ("ok", sorted(v.key() + (v.why[:160], v.site) for v in ctx.violations))
        except AnchorError as ex:
            out[tag] = ("anchor", str(ex)[:300])
        except Exception as ex:
            out[tag] = ("crash", "%s: %s" % (type(ex).__name__, str(ex)[:300]))
    return prop, out

def evaluate(patch, props, reverse=False, verbose=True):
    repo0 = Repo()
    text = open(patch).read()
    overlay = patching.apply(lambda rel: (repo0.by_path[rel].source if rel in repo0.by_path else None), text, reverse=reverse)
    if overlay is None:
        print("PATCH DOES NOT APPLY"); return None
    res = {}
    with ProcessPoolExecutor(max_workers=min(16, len(props))) as ex:
        for prop, out in ex.map(job, [(p, overlay) for p in props]):
            b, p = out["base"], out["patched"]
            if p[0] != "ok":
                res[prop] = [p[0].upper() + " " + p[1]]
            else:
                bk = {tuple(k[:4]) for k in b[1]} if b[0] == "ok" else set()
                res[prop] = ["%s | %s | %s | %s" % (k[1], k[2], k[3][:140], k[4][:120]) for k in p[1] if tuple(k[:4]) not in bk]
    return res

if __name__ == "__main__":
    args = [a for a in sys.argv[1:] if a != "-R"]
    patch = args[0]
    props = args[1:]
    if not props or props == ["all"]:
        props = [c["property_id"] for c in json.load(open("/verif/MANIFEST.json"))["checks"]]
    res = evaluate(patch, props, reverse="-R" in sys.argv)
    if res is None:
        sys.exit(3)
    hit = [p for p in props if res[p]]
    for p in props:
        for line in res[p]:
            print("%s: %s" % (p, line))
    print("CAUGHT-BY: %s" % (" ".join(hit) or "none"))
