#!/bin/sh
# store a confirmed sub-agent variant under /verif: tools/store_seed.sh C02 r2   (copies a,b -> seeded/C02_r2a|b ; n -> neutral/C02_r2)
ID=$1; R=$2; O=/tmp/wt/${ID}_$R/out
for v in a b; do
  [ -f $O/$v/patch.diff ] || continue
  D=/verif/seeded/${ID}_$R$v; mkdir -p $D; cp $O/$v/patch.diff $O/$v/demo.py $O/$v/meta.json $D/
done
if [ -f $O/n/patch.diff ]; then D=/verif/neutral/${ID}_$R; mkdir -p $D; cp $O/n/patch.diff $O/n/meta.json $D/; fi
