#!/bin/sh
# run the pinned baseline suite against a tree (default /repo) in a private network namespace
# (tests bind fixed ports); prints pass/fail counts and any failure not in the expected 5.
T=${1:-/repo}
cd "$T" && unshare -rn sh -c 'ip link set lo up; /venv/bin/python -W ignore -m pytest -q -p no:cacheprovider --timeout=900 --continue-on-collection-errors 2>&1' > /tmp/baseline.$$.log
tail -1 /tmp/baseline.$$.log
grep -E "^(FAILED|ERROR)" /tmp/baseline.$$.log | grep -v -E "testTLSConnectionVerifyBothTLSv1|testTLSConnectionVerifyNeither|testTcpClientServer( |$)|testTcpClientServerService( |$)|testTcpClientServerServiceCat" && echo "UNEXPECTED FAILURES ABOVE" || echo "no unexpected failures"
rm -f /tmp/baseline.$$.log
