#!/bin/sh
# confirm a seeded change against the current /repo HEAD in a scratch worktree:
#   demo passes on clean HEAD, fails with the patch; baseline suite passes with the patch.
# usage: confirm_seed.sh <ID> <patch> <demo.py>     (prints a one-line verdict; leaves nothing behind)
ID=$1; PATCH=$2; DEMO=$3
WT=/tmp/confirm_$ID.$$
git -C /repo worktree add -q --detach $WT HEAD || exit 3
cp $DEMO $WT/demo_$ID.py
cd $WT
( PYTHONPATH=$WT timeout 300 /venv/bin/python -W ignore demo_$ID.py >/tmp/confirm_$ID.clean.log 2>&1 ); RC_CLEAN=$?
if git apply $PATCH 2>/tmp/confirm_$ID.apply.log; then
  ( PYTHONPATH=$WT timeout 300 /venv/bin/python -W ignore demo_$ID.py >/tmp/confirm_$ID.patched.log 2>&1 ); RC_PATCHED=$?
  T=$(/verif/tools/baseline.sh $WT | tr '\n' ' ')
  echo "$ID clean_demo_rc=$RC_CLEAN patched_demo_rc=$RC_PATCHED tests: $T"
else
  echo "$ID PATCH DOES NOT APPLY to HEAD: $(head -2 /tmp/confirm_$ID.apply.log | tr '\n' ' ')"
fi
cd /; git -C /repo worktree remove --force $WT
