#!/bin/sh
# intake of a sub-agent's output: tools/intake.sh C02 r2   (reads /tmp/wt/C02_r2/out/{a,b,n})
# confirms each variant in a scratch worktree, evaluates it against every check on an overlay, prints a summary.
ID=$1; R=$2; O=/tmp/wt/${ID}_$R/out
for v in a b; do
  [ -f $O/$v/patch.diff ] || { echo "$ID$v: no patch"; continue; }
  echo "== $ID $v: $(python3 -c "import json;print(json.load(open('$O/$v/meta.json')).get('change','')[:200])" 2>/dev/null)"
  /verif/tools/confirm_seed.sh ${ID}_$R$v $O/$v/patch.diff $O/$v/demo.py
  /verif/tools/evalpatch.py $O/$v/patch.diff 2>&1 | cut -c1-260 | tail -12
done
if [ -f $O/n/patch.diff ]; then
  echo "== $ID n (neutral): $(python3 -c "import json;print(json.load(open('$O/n/meta.json')).get('change','')[:200])" 2>/dev/null)"
  WT=/tmp/confirm_${ID}_n.$$
  git -C /repo worktree add -q --detach $WT HEAD
  ( cd $WT && git apply $O/n/patch.diff && for v in a b; do [ -f $O/$v/demo.py ] && { PYTHONPATH=$WT timeout 300 /venv/bin/python -W ignore $O/$v/demo.py >/dev/null 2>&1; echo "  demo $v rc=$?"; }; done; /verif/tools/baseline.sh $WT | tr '\n' ' '; echo )
  git -C /repo worktree remove --force $WT
  /verif/tools/evalpatch.py $O/n/patch.diff 2>&1 | cut -c1-260 | tail -25
fi
